#!/bin/sh
# Build the framework offline from files on disk only.
set -e
cd "$(dirname "$0")/harness"
export CARGO_NET_OFFLINE=true
unset RUSTFLAGS
cargo build --offline --profile checked --bin vcheck
cargo build --offline --profile wrapping --bin vcheck
./target/wrapping/vcheck selftest
