//! Shared boundary-dense atoms (DESIGN.md 2.4). All randomness comes from `Unstructured`.
use crate::engine::UExt;
use crate::model::{cal, tl};
use arbitrary::{Result, Unstructured};

pub const CYCLE: i64 = 146_097;

/// boundary-dense day number in the full representable range
pub fn day(u: &mut Unstructured) -> Result<i64> {
    let k = u.below(17)?;
    Ok(match k {
        // the day of an instant at +-2^p units from either epoch (see pow2_instant)
        16 => match pow2_instant(u)? {
            Some(i) => i.div_euclid(tl::DAY_NS) as i64,
            None => u.range_i64(cal::MIN_DAY, cal::MAX_DAY)?,
        },
        0 => cal::MIN_DAY + u.below(800)? as i64,
        1 => cal::MAX_DAY - u.below(800)? as i64,
        // four 400-year cycles around 0001-01-01
        2 | 3 => u.range_i64(-4 * CYCLE, 4 * CYCLE)?,
        // close to the era boundary
        4 => u.range_i64(-800, 800)?,
        // around 1970 / modern dates
        5 | 6 => cal::DAYS_TO_1970 + u.range_i64(-CYCLE, CYCLE)?,
        // every k*146097 +- 2
        7 => {
            let kk = u.range_i64(cal::MIN_DAY / CYCLE + 1, cal::MAX_DAY / CYCLE - 1)?;
            kk * CYCLE + u.range_i64(-2, 2)?
        }
        // Feb 28/29/Mar 1, Dec 31/Jan 1 of a random year
        8 | 9 => {
            let y = year(u)?;
            let y = y.clamp(cal::MIN_YMD.0 + 1, cal::MAX_YMD.0 - 1);
            let y = if y == 0 { 1 } else { y };
            let which = u.below(6)?;
            match which {
                0 => cal::days_from_ymd(y, 2, 28),
                1 => cal::days_from_ymd(y, 2, 28) + 1,
                2 => cal::days_from_ymd(y, 3, 1),
                3 => cal::days_from_ymd(y, 12, 31),
                4 => cal::days_from_ymd(y, 1, 1),
                _ => cal::days_from_ymd(y, 12, 31) - u.below(8)? as i64,
            }
        }
        // month ends
        10 => {
            let y = year(u)?.clamp(cal::MIN_YMD.0 + 1, cal::MAX_YMD.0 - 1);
            let y = if y == 0 { -1 } else { y };
            let m = 1 + u.below(12)? as u32;
            let back = u.below(4)? as u32;
            cal::days_from_ymd(y, m, cal::month_len(y, m) - back.min(3))
        }
        _ => u.range_i64(cal::MIN_DAY, cal::MAX_DAY)?,
    })
}

/// day kept `margin` days inside the range
pub fn day_inside(u: &mut Unstructured, margin: i64) -> Result<i64> {
    Ok(day(u)?.clamp(cal::MIN_DAY + margin, cal::MAX_DAY - margin))
}

/// display year (never 0), boundary-dense
pub fn year(u: &mut Unstructured) -> Result<i64> {
    let k = u.below(11)?;
    let y = match k {
        // where the number of digits changes: 9|10, 99|100, 999|1000, 9999|10000, ... (both eras)
        10 => {
            let p = u.int_in_range(1..=6u32)?;
            let sign = if u.coin(1, 3)? { -1 } else { 1 };
            sign * (10i64.pow(p) + u.range_i64(-1, 1)?)
        }
        0 => cal::MIN_YMD.0 + u.below(3)? as i64,
        1 => cal::MAX_YMD.0 - u.below(3)? as i64,
        2 | 3 => u.range_i64(-401, 401)?,
        4 | 5 => u.range_i64(1899, 2101)?,
        6 => u.range_i64(9998, 10_001)?,
        7 => {
            // multiples of 4/100/400 +- 1, AD and BC
            let base = *u.choose(&[4i64, 100, 400])?;
            let kk = u.range_i64(-30, 30)?;
            kk * base + u.range_i64(-1, 1)?
        }
        _ => u.range_i64(cal::MIN_YMD.0, cal::MAX_YMD.0)?,
    };
    Ok(if y == 0 { -1 } else { y })
}

/// nanoseconds within a day, boundary-dense
pub fn day_ns(u: &mut Unstructured) -> Result<i64> {
    const D: i64 = 86_400_000_000_000;
    let k = u.below(12)?;
    Ok(match k {
        0 => 0,
        1 => *u.choose(&[1i64, 999_999_999, 1_000_000_000, 1_000_000_001])?,
        2 => D - 1 - u.below(3)? as i64,
        3 => 43_200_000_000_000 + u.range_i64(-1, 1)?,
        4 | 5 => {
            // unit multiple +- 1
            let unit = *u.choose(&[3_600_000_000_000i64, 60_000_000_000, 1_000_000_000, 1_000_000, 1_000])?;
            let kk = u.range_i64(0, D / unit)?;
            (kk * unit + u.range_i64(-1, 1)?).clamp(0, D - 1)
        }
        6 => u.range_i64(0, 86_399)? * 1_000_000_000,
        7 => u.range_i64(0, 86_399)? * 1_000_000_000 + *u.choose(&[1i64, 500_000_000, 999_999_999, 123_456_789, 999_000_000, 1_000, 1_000_000])?,
        _ => u.range_i64(0, D - 1)?,
    })
}

pub fn count(u: &mut Unstructured) -> Result<u32> {
    let k = u.below(12)?;
    Ok(match k {
        0 => *u.choose(&[0u32, 1, 2, 23, 24, 25, 59, 60, 61, 999, 1000, 1001])?,
        // counts at which count x unit crosses 2^31 / 2^32 / 2^53 nanoseconds
        11 => {
            let b = *u.choose(&[2_147u32, 4_294, 2_147_483, 4_294_967, 35, 71, 9_007_199, 150_119, 2_501, 104])?;
            (b as i64 + u.range_i64(-1, 2)?).max(0) as u32
        }
        1 => *u.choose(&[(1u32 << 31) - 1, 1 << 31, (1 << 31) + 1, u32::MAX - 1, u32::MAX])?,
        // thresholds where count*unit crosses 2^63 / 2^64 (hours, minutes)
        2 => {
            let b = *u.choose(&[2_562_047u32, 5_124_095, 153_722_867, 307_445_734])?;
            (b as i64 + u.range_i64(-1, 2)?) as u32
        }
        3 | 4 => {
            // log-uniform
            let bits = u.below(33)? as u32;
            if bits == 0 {
                0
            } else {
                let lo = 1u64 << (bits - 1);
                let hi = (1u64 << bits) - 1;
                u.int_in_range(lo..=hi)? as u32
            }
        }
        5 | 6 => u.int_in_range(0..=100_000u32)?,
        _ => u.int_in_range(0..=u32::MAX)?,
    })
}

pub fn offset(u: &mut Unstructured) -> Result<i32> {
    let k = u.below(10)?;
    Ok(match k {
        0 => 0,
        1 => *u.choose(&[1i32, -1, 59, -59, 60, -60, 3599, -3599, 3600, -3600, 86_399, -86_399, 86_340, -86_340, 43_200, -43_200])?,
        2 | 3 => u.int_in_range(-23..=23i32)? * 3600,
        4 | 5 => u.int_in_range(-1439..=1439i32)? * 60,
        _ => u.int_in_range(-86_399..=86_399i32)?,
    })
}

/// whole-minute offset
pub fn offset_minutes(u: &mut Unstructured) -> Result<i32> {
    let k = u.below(6)?;
    Ok(match k {
        0 => 0,
        1 => *u.choose(&[60i32, -60, 3600, -3600, 86_340, -86_340, 19_800, -12_600, 45_900])?,
        2 => u.int_in_range(-23..=23i32)? * 3600,
        _ => u.int_in_range(-1439..=1439i32)? * 60,
    })
}

/// instant (ns since 0001-01-01) whose day is kept `margin` days inside the range
pub fn instant(u: &mut Unstructured, margin: i64) -> Result<i128> {
    let d = day_inside(u, margin)?;
    let n = day_ns(u)?;
    Ok(d as i128 * tl::DAY_NS + n as i128)
}

/// instant with UTC and local (for any offset) year inside 1..=9999
pub fn instant_y1_9999(u: &mut Unstructured) -> Result<i128> {
    let lo = cal::days_from_ymd(1, 1, 2);
    let hi = cal::days_from_ymd(9999, 12, 30);
    let k = u.below(8)?;
    let d = match k {
        0 => lo + u.below(3)? as i64,
        1 => hi - u.below(3)? as i64,
        2 | 3 => cal::DAYS_TO_1970 + u.range_i64(-40_000, 40_000)?,
        4 => {
            let y = u.range_i64(1, 9999)?;
            let m = 1 + u.below(12)? as u32;
            let dd = if u.coin(1, 2)? { 1 } else { cal::month_len(y, m) };
            cal::days_from_ymd(y, m, dd).clamp(lo, hi)
        }
        _ => u.range_i64(lo, hi)?,
    };
    Ok(d as i128 * tl::DAY_NS + day_ns(u)? as i128)
}

/// An instant as (day number, nanoseconds of day): serialisable without 128-bit numbers.
#[derive(Debug, Clone, Copy, Hash, PartialEq, Eq, serde::Serialize, serde::Deserialize)]
pub struct Inst {
    pub day: i64,
    pub ns: i64,
}

impl Inst {
    pub fn i(&self) -> i128 {
        self.day as i128 * tl::DAY_NS + self.ns as i128
    }
    pub fn from_i(i: i128) -> Self {
        Inst { day: i.div_euclid(tl::DAY_NS) as i64, ns: i.rem_euclid(tl::DAY_NS) as i64 }
    }
    pub fn valid(&self) -> bool {
        (cal::MIN_DAY..=cal::MAX_DAY).contains(&self.day) && (0..86_400_000_000_000).contains(&self.ns)
    }
}

/// instants at +-2^p units since 0001-01-01 or since 1970-01-01 (p in 31, 32, 52, 53, 62, 63,
/// 64; units ns, us, ms, s, min): thresholds of any 32/53/64-bit intermediate, whatever unit
/// and epoch it is held in. Returned with a small displacement around the threshold.
pub fn pow2_instant(u: &mut Unstructured) -> Result<Option<i128>> {
    let p = *u.choose(&[31u32, 32, 52, 53, 62, 63, 64])?;
    let unit: i128 = *u.choose(&[1i128, 1_000, 1_000_000, 1_000_000_000, 60_000_000_000])?;
    let epoch: i128 = if u.coin(1, 2)? { 0 } else { cal::DAYS_TO_1970 as i128 * tl::DAY_NS };
    let sign: i128 = if u.coin(1, 2)? { 1 } else { -1 };
    let base = epoch + sign * (1i128 << p) * unit;
    let delta: i128 = match u.below(6)? {
        0 => 0,
        1 => u.range_i64(-2, 2)? as i128,
        2 => u.range_i64(-1_000_000_000, 1_000_000_000)? as i128,
        3 => u.range_i64(-86_400_000_000_000, 86_400_000_000_000)? as i128,
        4 => u.range_i64(-2, 2)? as i128 * unit,
        _ => u.range_i64(-90_000, 90_000)? as i128 * 1_000_000_000,
    };
    let i = base + delta;
    Ok(if tl::representable(i) { Some(i) } else { None })
}

pub fn inst(u: &mut Unstructured, margin: i64) -> Result<Inst> {
    if u.coin(1, 12)? {
        if let Some(i) = pow2_instant(u)? {
            let v = Inst::from_i(i);
            if v.day >= cal::MIN_DAY + margin && v.day <= cal::MAX_DAY - margin {
                return Ok(v);
            }
        }
    }
    Ok(Inst { day: day_inside(u, margin)?, ns: day_ns(u)? })
}

/// a second instant near/far from `a`: boundary-dense deltas
pub fn inst_near(u: &mut Unstructured, a: Inst, margin: i64) -> Result<Inst> {
    let k = u.below(18)?;
    let ai = a.i();
    let d: i128 = match k {
        0 => 0,
        1 => 1,
        2 => tl::NS - 1,
        3 => tl::NS,
        4 => tl::DAY_NS - 1,
        5 => tl::DAY_NS,
        6 => tl::DAY_NS + 1,
        // less than one unit
        7 => {
            let unit = tl::unit_ns(u.below(7)? as u8);
            (u.below(unit as u64)? as i128).max(1)
        }
        // k units +- small
        8 => {
            let unit = tl::unit_ns(u.below(7)? as u8);
            u.below(1000)? as i128 * unit + u.range_i64(-1, 1)? as i128
        }
        // a whole number of calendar cycles (400, 100, 28, 4 years; one year) apart, give or take a
        // little: same month and day, time of day just before / after
        16 | 17 => {
            let cycle: i128 = *u.choose(&[146_097i128, 146_097, 36_524, 36_525, 10_227, 1_461, 365, 366])?;
            let n = u.int_in_range(1..=3i64)? as i128;
            let disp: i128 = match u.below(5)? {
                0 => 0,
                1 => u.range_i64(-2, 2)? as i128,
                2 => u.range_i64(-43_200_000_000_000, 43_200_000_000_000)? as i128,
                3 => u.range_i64(-1_000_000_000, 1_000_000_000)? as i128,
                _ => u.range_i64(-2 * 86_400_000_000_000, 2 * 86_400_000_000_000)? as i128,
            };
            (cycle * n * tl::DAY_NS + disp).max(0)
        }
        // a *distance* at a power-of-two threshold of any unit (2^63 ns is 106 751 days and
        // 23:47:16.854775807: the band up to the next whole day, hour, minute matters as well)
        14 | 15 => {
            let p = *u.choose(&[31u32, 32, 52, 53, 62, 63, 64])?;
            let unit: i128 = *u.choose(&[1i128, 1, 1_000, 1_000_000, 1_000_000_000, 60_000_000_000])?;
            let base = (1i128 << p) * unit;
            let disp: i128 = match u.below(5)? {
                0 => 0,
                1 => u.range_i64(-2, 2)? as i128,
                2 => u.range_i64(-1_000, 1_000)? as i128,
                3 => u.range_i64(-3_600_000_000_000, 3_600_000_000_000)? as i128,
                _ => u.range_i64(-86_400_000_000_000, 86_400_000_000_000)? as i128,
            };
            (base + disp).max(0)
        }
        // straddle day 0 / go to the other side of the era
        9 => ai.abs() + u.below(2 * tl::DAY_NS as u64)? as i128,
        10 => u.below(400 * tl::DAY_NS as u64)? as i128,
        11 => {
            // far: anywhere in range
            let other = inst(u, margin)?;
            return Ok(other);
        }
        _ => u.below(3 * tl::DAY_NS as u64)? as i128,
    };
    let sign: i128 = if u.coin(1, 2)? { 1 } else { -1 };
    let lo = (cal::MIN_DAY + margin) as i128 * tl::DAY_NS;
    let hi = (cal::MAX_DAY - margin) as i128 * tl::DAY_NS + tl::DAY_NS - 1;
    Ok(Inst::from_i((ai + sign * d).clamp(lo, hi)))
}

/// A receiver on one of the two outermost days at either end of the range together with an offset,
/// such that both the instant and its local reading are representable.
pub fn edge_inst_off(u: &mut Unstructured) -> arbitrary::Result<(Inst, i32)> {
    let top = u.ratio(1, 2)?;
    let day = if top { cal::MAX_DAY - u.int_in_range(0..=1i64)? } else { cal::MIN_DAY + u.int_in_range(0..=1i64)? };
    let off = if u.ratio(1, 6)? { 0 } else { offset(u)? };
    let o = off as i64 * 1_000_000_000;
    let ns = if (top && off > 0 && day == cal::MAX_DAY) || (!top && off < 0 && day == cal::MIN_DAY) {
        let room = 86_400_000_000_000 - o.abs();
        let t = u.int_in_range(0..=room - 1)?;
        if top {
            t
        } else {
            t + o.abs()
        }
    } else {
        match u.int_in_range(0..=3u8)? {
            0 => 0,
            1 => 86_399_999_999_999,
            _ => u.int_in_range(0..=86_399_999_999_999i64)?,
        }
    };
    Ok((Inst { day, ns }, off))
}
