pub mod engine;
pub mod fuzz;
pub mod gen;
pub mod model;
pub mod obs;
pub mod props;
pub mod tzsyn;
