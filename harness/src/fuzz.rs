//! Bodies of the libFuzzer targets (harness/fuzz). Each decodes the bytes into a case of
//! an existing sub-check and judges it with that sub-check's oracle; an unlisted violation
//! prints a line and aborts, so libFuzzer saves the input.
use crate::engine::*;
use crate::props::{c08, c11, c12, c13, c14, c16, c17, c19, c20};
use arbitrary::Unstructured;
use std::sync::OnceLock;

fn known() -> &'static Vec<KnownEntry> {
    static K: OnceLock<Vec<KnownEntry>> = OnceLock::new();
    K.get_or_init(|| {
        install_panic_hook();
        std::fs::read_to_string("/verif/known_findings.json")
            .ok()
            .and_then(|s| serde_json::from_str::<KnownFile>(&s).ok())
            .map(|k| k.entries)
            .unwrap_or_default()
    })
}

fn report<C: serde::Serialize>(check: &str, case: &C, v: Verdict) {
    if let Verdict::Fail(f) = v {
        if known().iter().any(|k| k.status == "known" && !f.sig.is_empty() && k.signature == f.sig) {
            return;
        }
        eprintln!("VIOLATION-FUZZ check={} signature={:?}", check, f.sig);
        eprintln!("  case={}", serde_json::to_string(case).unwrap_or_default());
        eprintln!("  expected: {}", f.expected);
        eprintln!("  actual:   {}", f.actual);
        std::process::abort();
    }
}

fn one<P: Prop>(data: &[u8]) {
    let mut u = Unstructured::new(data);
    let Ok(case) = P::gen(&mut u) else { return };
    let mut cx = Cx::default();
    let v = match catch(|| P::check(&case, &mut cx)) {
        Ok(v) => v,
        Err(p) => fail("harness.check_panicked", "check does not panic", p.short()),
    };
    // state of one iteration must not leak into the next
    crate::obs::unpin_local();
    report(P::NAME, &case, v);
}

pub fn text(data: &[u8]) {
    known();
    let Some(case) = c14::decode_fuzz_text(data) else { return };
    let mut cx = Cx::default();
    let v = c14::judge(&case, &mut cx);
    report("C14.mutated", &case, v);
}

pub fn tzif(data: &[u8]) {
    known();
    let case = c19::RawCase { bytes: data.to_vec() };
    let mut cx = Cx::default();
    let v = c19::judge_bytes(data, &[], data.first().map(|b| b % 8 == 0).unwrap_or(false), &mut cx);
    astrolabe::verif::set_localtime(None);
    astrolabe::verif::set_now(None);
    report("C19.raw", &case, v);
}

pub const STRUCTURED: [&str; 9] = ["C12.roundtrip", "C13.read", "C13.write", "C11.format", "C16.denotation", "C08.history", "C19.hostile", "C17.history", "C20.malformed"];

/// VERIF_FUZZ_SELECT="1,2" restricts the structured target to those selectors
fn selector(byte: u8) -> u8 {
    static SEL: OnceLock<Vec<u8>> = OnceLock::new();
    let sel = SEL.get_or_init(|| {
        std::env::var("VERIF_FUZZ_SELECT")
            .ok()
            .map(|s| s.split(',').filter_map(|x| x.trim().parse::<u8>().ok()).filter(|x| *x < 9).collect())
            .unwrap_or_default()
    });
    if sel.is_empty() {
        byte % 9
    } else {
        sel[byte as usize % sel.len()]
    }
}

pub fn structured(data: &[u8]) {
    known();
    if data.is_empty() {
        return;
    }
    let rest = &data[1..];
    match selector(data[0]) {
        0 => one::<c12::RoundTrip>(rest),
        1 => one::<c13::Read>(rest),
        2 => one::<c13::Write>(rest),
        3 => one::<c11::Format>(rest),
        4 => one::<c16::Denotation>(rest),
        5 => one::<c08::History>(rest),
        6 => one::<c19::Hostile>(rest),
        7 => one::<c17::History>(rest),
        _ => one::<c20::Malformed>(rest),
    }
}

/// decodes a saved libFuzzer input into (property id, replay JSON)
pub fn decode(target: &str, data: &[u8]) -> Option<(String, String, serde_json::Value)> {
    fn dec<P: Prop>(rest: &[u8]) -> Option<(String, String, serde_json::Value)> {
        let mut u = Unstructured::new(rest);
        let case = P::gen(&mut u).ok()?;
        Some((P::NAME[..3].to_string(), P::NAME.to_string(), serde_json::to_value(&case).ok()?))
    }
    match target {
        "text" => c14::decode_fuzz_text(data).and_then(|c| Some(("C14".to_string(), "C14.mutated".to_string(), serde_json::to_value(&c).ok()?))),
        "tzif" => Some(("C19".to_string(), "C19.raw".to_string(), serde_json::to_value(&c19::RawCase { bytes: data.to_vec() }).ok()?)),
        "structured" => {
            if data.is_empty() {
                return None;
            }
            let rest = &data[1..];
            match selector(data[0]) {
                0 => dec::<c12::RoundTrip>(rest),
                1 => dec::<c13::Read>(rest),
                2 => dec::<c13::Write>(rest),
                3 => dec::<c11::Format>(rest),
                4 => dec::<c16::Denotation>(rest),
                5 => dec::<c08::History>(rest),
                6 => dec::<c19::Hostile>(rest),
                7 => dec::<c17::History>(rest),
                _ => dec::<c20::Malformed>(rest),
            }
        }
        _ => None,
    }
}

/// judges one saved input with the target's own body; returns (non-trivial fingerprint, failure)
pub fn judge_saved(target: &str, data: &[u8]) -> Option<(Option<u64>, Option<Failure>)> {
    fn j<P: Prop>(rest: &[u8]) -> Option<(Option<u64>, Option<Failure>)> {
        let mut u = Unstructured::new(rest);
        let case = P::gen(&mut u).ok()?;
        let mut cx = Cx::default();
        let v = match catch(|| P::check(&case, &mut cx)) {
            Ok(v) => v,
            Err(p) => fail("harness.check_panicked", "check does not panic", p.short()),
        };
        let fp = if cx.nontrivial { Some(fingerprint(P::NAME, &case)) } else { None };
        Some((fp, if let Verdict::Fail(f) = v { Some(f) } else { None }))
    }
    match target {
        "text" => {
            let case = c14::decode_fuzz_text(data)?;
            let mut cx = Cx::default();
            let v = c14::judge(&case, &mut cx);
            let fp = if cx.nontrivial { Some(fingerprint("C14.mutated", &case)) } else { None };
            Some((fp, if let Verdict::Fail(f) = v { Some(f) } else { None }))
        }
        "tzif" => {
            let mut cx = Cx::default();
            let v = c19::judge_bytes(data, &[], true, &mut cx);
            astrolabe::verif::set_localtime(None);
            astrolabe::verif::set_now(None);
            // non-trivial = accepted by the TZif parser (the look-ups were exercised)
            let accepted = catch(|| astrolabe::verif::Tz::parse(data).is_ok()).unwrap_or(false);
            let fp = if accepted { Some(fingerprint("C19.raw", &data.to_vec())) } else { None };
            Some((fp, if let Verdict::Fail(f) = v { Some(f) } else { None }))
        }
        "structured" => {
            if data.is_empty() {
                return None;
            }
            let rest = &data[1..];
            match selector(data[0]) {
                0 => j::<c12::RoundTrip>(rest),
                1 => j::<c13::Read>(rest),
                2 => j::<c13::Write>(rest),
                3 => j::<c11::Format>(rest),
                4 => j::<c16::Denotation>(rest),
                5 => j::<c08::History>(rest),
                6 => j::<c19::Hostile>(rest),
                7 => j::<c17::History>(rest),
                _ => j::<c20::Malformed>(rest),
            }
        }
        _ => None,
    }
}
