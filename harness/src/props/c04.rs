//! C04 — adding or subtracting an amount of time moves the instant by exactly that amount.
use crate::engine::*;
use crate::gen::{self, Inst};
use crate::model::{cal, tl};
use crate::obs::*;
use arbitrary::Unstructured;
use astrolabe::{DateTime, DateUtilities, Offset, OffsetUtilities, TimeUtilities};
use serde::{Deserialize, Serialize};
use std::time::Duration;

#[derive(Debug, Clone, Hash, Serialize, Deserialize)]
pub enum Op {
    /// DateTime::add_<unit>/sub_<unit>; unit 0 = days … 6 = nanos
    Unit { unit: u8, count: u32, sub: bool },
    /// Date::add_days / sub_days
    DateDays { count: u32, sub: bool },
    /// DateTime +/- Duration (assign = use += / -=)
    DtDur { secs: u64, nanos: u32, sub: bool, assign: bool },
    /// DateTime +/- Time (the Time carries offset 0)
    DtTime { tns: u64, sub: bool, assign: bool },
    /// Date +/- Duration
    DateDur { secs: u64, nanos: u32, sub: bool, assign: bool },
}

#[derive(Debug, Clone, Hash, Serialize, Deserialize)]
pub struct Case {
    pub a: Inst,
    pub off: i32,
    pub op: Op,
}

fn dur_secs(u: &mut Unstructured) -> arbitrary::Result<u64> {
    let k = u.below(10)?;
    Ok(match k {
        0 => *u.choose(&[0u64, 1, 59, 60, 86_399, 86_400, 86_401, 172_800])?,
        1 => u.int_in_range(0..=200_000u64)?,
        2 => u.int_in_range(0..=100_000u64)? * 86_400 + *u.choose(&[0u64, 1, 86_399])?,
        3 => u.int_in_range(0..=400_000_000_000_000u64)?,
        4 => *u.choose(&[u64::MAX, u64::MAX - 1, 1 << 63, (1 << 63) - 1, 9_223_372_036, 9_223_372_037, 18_446_744_073, 18_446_744_074, 4, 5, u64::MAX / 86_400, u64::MAX / 86_400 * 86_400, 185_542_587_187_199, 185_542_587_187_200, 371_085_174_374_399, 371_085_174_374_400])?,
        5 => u.int_in_range(0..=u64::MAX)?,
        6 => (1u64 << 32) * 86_400 - u.int_in_range(0..=200_000u64)?,
        7 => ((1u64 << 31) * 86_400).wrapping_add(u.int_in_range(0..=400_000u64)?).wrapping_sub(200_000),
        _ => u.int_in_range(0..=40_000_000u64)?,
    })
}

pub struct AddSub;
impl Prop for AddSub {
    type Case = Case;
    const NAME: &'static str = "C04.addsub";
    const BYTES: usize = 96;
    fn gen(u: &mut Unstructured<'_>) -> arbitrary::Result<Case> {
        let kind = u.below(10)?;
        let sub = u.coin(1, 2)?;
        let op = match kind {
            0..=5 => Op::Unit { unit: u.below(7)? as u8, count: gen::count(u)?, sub },
            6 => Op::DateDays { count: gen::count(u)?, sub },
            7 => {
                let (secs, nanos) = if u.coin(1, 5)? {
                    // total nanoseconds next to 2^32, 2^63, 2^64 (thresholds of any 32/64-bit intermediate)
                    let total: u128 = *u.choose(&[1u128 << 32, 1u128 << 63, 1u128 << 64, (1u128 << 64) + (1u128 << 63), 1u128 << 65])?;
                    let total = (total as i128 + u.range_i64(-2, 2)? as i128 + if u.coin(1, 2)? { u.range_i64(0, 999_999_999)? as i128 } else { 0 }).max(0) as u128;
                    ((total / 1_000_000_000) as u64, (total % 1_000_000_000) as u32)
                } else if u.coin(1, 6)? {
                    // an exact multiple of a unit whose multiplier is next to 2^31 / 2^32 / a multiple
                    // of 2^32 (a count that is narrowed to 32 bits wraps), with no sub-second part
                    let unit = *u.choose(&[86_400u64, 86_400, 3_600, 60, 1])?;
                    let mult = match u.below(4)? {
                        0 => (1u64 << 32) + u.below(6)?,
                        1 => (1u64 << 31) + u.below(6)?,
                        2 => (1u64 << 32) * u.int_in_range(1..=3u64)? + u.below(40_000)?,
                        _ => (1u64 << 32) - 1 - u.below(6)?,
                    };
                    (mult * unit, if u.coin(1, 4)? { 1 } else { 0 })
                } else {
                    (dur_secs(u)?, u.int_in_range(0..=999_999_999u32)?)
                };
                Op::DtDur { secs, nanos, sub, assign: u.coin(1, 3)? }
            }
            8 => Op::DtTime { tns: gen::day_ns(u)? as u64, sub, assign: u.coin(1, 3)? },
            _ => Op::DateDur { secs: dur_secs(u)?, nanos: u.int_in_range(0..=999_999_999u32)?, sub, assign: u.coin(1, 3)? },
        };
        let mut a = gen::inst(u, 1)?;
        // edge targeting: place the receiver so that the target lands next to a range end
        if u.coin(1, 4)? {
            let amount: i128 = match &op {
                Op::Unit { unit, count, .. } => *count as i128 * tl::unit_ns(*unit),
                Op::DateDays { count, .. } => *count as i128 * tl::DAY_NS,
                Op::DtDur { secs, nanos, .. } => *secs as i128 * tl::NS + *nanos as i128,
                Op::DtTime { tns, .. } => *tns as i128,
                Op::DateDur { secs, .. } => (*secs / 86_400) as i128 * tl::DAY_NS,
            };
            let slack = u.range_i64(-2 * 86_400_000_000_000, 2 * 86_400_000_000_000)? as i128;
            let slack = if u.coin(1, 3)? { slack.signum() * (slack.abs() % 3) } else { slack };
            let start = if sub { tl::MIN_INSTANT + amount + slack } else { tl::MAX_INSTANT - amount + slack };
            let lo = (cal::MIN_DAY + 1) as i128 * tl::DAY_NS;
            let hi = (cal::MAX_DAY - 1) as i128 * tl::DAY_NS + tl::DAY_NS - 1;
            a = Inst::from_i(start.clamp(lo, hi));
        }
        let mut off = gen::offset(u)?;
        // receivers on the two outermost days at either end (read at offset 0 there)
        if u.coin(1, 10)? {
            a.day = if u.coin(1, 2)? { cal::MIN_DAY + u.below(2)? as i64 } else { cal::MAX_DAY - u.below(2)? as i64 };
            // half of them at offset 0, the others with an offset (built by arithmetic on an
            // offset-carrying value: obs::mk_dt_off_late; the local reading may be unrepresentable)
            if u.coin(1, 2)? {
                off = 0;
            }
        }
        // amounts chosen so that the target lands exactly on a midnight (+- 1 ns)
        let mut op = op;
        if u.coin(1, 8)? {
            let delta = *u.choose(&[0i64, 0, 1, -1])?;
            let k_days = u.below(3)? as i64;
            let sub = match &op {
                Op::Unit { sub, .. } | Op::DateDays { sub, .. } | Op::DtDur { sub, .. } | Op::DtTime { sub, .. } | Op::DateDur { sub, .. } => *sub,
            };
            let to_midnight = if sub { a.ns } else { 86_400_000_000_000 - a.ns } + delta;
            if to_midnight >= 0 {
                match &mut op {
                    Op::DtTime { tns, .. } if to_midnight < 86_400_000_000_000 => *tns = to_midnight as u64,
                    Op::DtDur { secs, nanos, .. } => {
                        let total = to_midnight as i128 + k_days as i128 * 86_400_000_000_000;
                        *secs = (total / 1_000_000_000) as u64;
                        *nanos = (total % 1_000_000_000) as u32;
                    }
                    Op::Unit { unit, count, .. } if *unit == 6 && to_midnight <= u32::MAX as i64 => *count = to_midnight as u32,
                    Op::Unit { unit, count, .. } if *unit == 3 && to_midnight % 1_000_000_000 == 0 => *count = (to_midnight / 1_000_000_000) as u32,
                    _ => {}
                }
            }
        }
        // whole days plus a fraction, applied to a receiver within that fraction of the end (start)
        // of its day: the sub-day parts carry into one more day than the whole days
        if u.coin(1, 16)? {
            if let Op::DtDur { secs, nanos, sub, .. } = &mut op {
                let k = *u.choose(&[1u64, 1, 2, 7])?;
                *secs = k * 86_400 + if u.coin(1, 3)? { *u.choose(&[0u64, 1, 59, 3_599])? } else { 0 };
                *nanos = u.int_in_range(1..=999_999_999u32)?;
                let extra = (*secs % 86_400) as i64 * 1_000_000_000 + *nanos as i64;
                let g = u.range_i64(0, extra)?;
                a.ns = if *sub { g.min(86_399_999_999_999) } else { (86_400_000_000_000 - 1 - g).max(0) + if g == extra { 0 } else { 0 } };
                if !*sub && u.coin(1, 2)? {
                    // exactly on / one step beyond the carry
                    a.ns = (86_400_000_000_000 - extra + u.range_i64(-1, 1)?).clamp(0, 86_399_999_999_999);
                }
            }
        }
        Ok(Case { a, off, op })
    }
    fn check(c: &Case, cx: &mut Cx) -> Verdict {
        if !c.a.valid() || c.off.unsigned_abs() > 86_399 {
            return Verdict::Skip("malformed case");
        }
        let late = c.off != 0 && (c.a.day < cal::MIN_DAY + 1 || c.a.day > cal::MAX_DAY - 1);
        if late {
            cx.nt("offset_receiver_on_an_outermost_day_built_by_arithmetic");
        }
        if c.a.day <= cal::MIN_DAY + 1 || c.a.day >= cal::MAX_DAY - 1 {
            cx.nt("receiver_on_an_outermost_day");
        }
        let ia = c.a.i();
        let mut off = Offset::Fixed(c.off);
        // expected
        let (is_date, amount, sub): (bool, i128, bool) = match &c.op {
            Op::Unit { unit, count, sub } => {
                if *unit > 6 {
                    return Verdict::Skip("malformed case");
                }
                (false, *count as i128 * tl::unit_ns(*unit), *sub)
            }
            Op::DateDays { count, sub } => (true, *count as i128 * tl::DAY_NS, *sub),
            Op::DtDur { secs, nanos, sub, .. } => (false, *secs as i128 * tl::NS + *nanos as i128, *sub),
            Op::DtTime { tns, sub, .. } => {
                if *tns >= 86_400_000_000_000 {
                    return Verdict::Skip("malformed case");
                }
                (false, *tns as i128, *sub)
            }
            Op::DateDur { secs, sub, .. } => (true, (*secs / 86_400) as i128 * tl::DAY_NS, *sub),
        };
        let start = if is_date { c.a.day as i128 * tl::DAY_NS } else { ia };
        let target = if sub { start - amount } else { start + amount };
        let representable = tl::representable(target);
        // classification
        if ia < 0 {
            cx.nt("bc_receiver");
        }
        if representable && target.div_euclid(tl::DAY_NS) != start.div_euclid(tl::DAY_NS) {
            cx.nt("crosses_day");
        }
        if (start < 0) != (target < 0) {
            cx.nt("crosses_day0");
        }
        if let Op::Unit { count, .. } | Op::DateDays { count, .. } = &c.op {
            if *count >= 1 << 31 {
                cx.nt("count>=2^31");
            }
        }
        if amount >= 1i128 << 63 {
            cx.nt("amount>=2^63ns");
        }
        let dist = (target - tl::MAX_INSTANT).abs().min((target - tl::MIN_INSTANT).abs());
        if dist <= tl::DAY_NS {
            cx.nt("target_within_a_day_of_range_end");
        }
        if !representable {
            cx.label("not_representable");
        }
        match &c.op {
            Op::Unit { .. } => cx.label("op_unit"),
            Op::DateDays { .. } => cx.label("op_date_days"),
            Op::DtDur { .. } => cx.label("op_dt_duration"),
            Op::DtTime { .. } => cx.label("op_dt_time"),
            Op::DateDur { .. } => cx.label("op_date_duration"),
        }
        // actual
        let what = format!("{:?} on {} [{}]", c.op, if is_date { fmt_day(c.a.day) } else { fmt_instant(ia) }, c.off);
        let r: Result<(i128, Option<Offset>), PanicInfo> = if is_date {
            let d0 = match catch(|| mk_date(c.a.day)) {
                Ok(d) => d,
                Err(p) => return fail("c04.harness_build", "receiver builds", p.short()),
            };
            catch(|| {
                let r = match &c.op {
                    Op::DateDays { count, sub } => {
                        if *sub {
                            d0.sub_days(*count)
                        } else {
                            d0.add_days(*count)
                        }
                    }
                    Op::DateDur { secs, nanos, sub, assign } => {
                        let d = Duration::new(*secs, *nanos);
                        match (*sub, *assign) {
                            (false, false) => d0 + d,
                            (true, false) => d0 - d,
                            (false, true) => {
                                let mut x = d0;
                                x += d;
                                x
                            }
                            (true, true) => {
                                let mut x = d0;
                                x -= d;
                                x
                            }
                        }
                    }
                    _ => unreachable!(),
                };
                ((r.timestamp() as i128 + tl::EPOCH_1970_S as i128) * tl::NS, None)
            })
        } else {
            let d0 = match catch(|| if late { (mk_dt_off_late(ia, c.off), false) } else { mk_dt_off_pin(ia, c.off) }) {
                Ok((d, local)) => {
                    if local {
                        cx.nt("offset_carried_as_Offset::Local");
                        off = Offset::Local;
                    }
                    d
                }
                Err(p) => return fail("c04.harness_build", "receiver builds", p.short()),
            };
            catch(|| {
                let r: DateTime = match &c.op {
                    Op::Unit { unit, count, sub } => match (*unit, *sub) {
                        (0, false) => d0.add_days(*count),
                        (0, true) => d0.sub_days(*count),
                        (1, false) => d0.add_hours(*count),
                        (1, true) => d0.sub_hours(*count),
                        (2, false) => d0.add_minutes(*count),
                        (2, true) => d0.sub_minutes(*count),
                        (3, false) => d0.add_seconds(*count),
                        (3, true) => d0.sub_seconds(*count),
                        (4, false) => d0.add_millis(*count),
                        (4, true) => d0.sub_millis(*count),
                        (5, false) => d0.add_micros(*count),
                        (5, true) => d0.sub_micros(*count),
                        (_, false) => d0.add_nanos(*count),
                        (_, true) => d0.sub_nanos(*count),
                    },
                    Op::DtDur { secs, nanos, sub, assign } => {
                        let d = Duration::new(*secs, *nanos);
                        match (*sub, *assign) {
                            (false, false) => d0 + d,
                            (true, false) => d0 - d,
                            (false, true) => {
                                let mut x = d0;
                                x += d;
                                x
                            }
                            (true, true) => {
                                let mut x = d0;
                                x -= d;
                                x
                            }
                        }
                    }
                    Op::DtTime { tns, sub, assign } => {
                        // an offset on the Time operand changes how that time of day is read, not which
                        // time of day it is (C10; equal Times, C08): the amount stays the same
                        let toff = [0i32, 0, 3_600, -18_000, 86_399, -1, 9_000, -45_296][((*tns >> 7) ^ (c.a.day as u64)) as usize % 8];
                        let t = if toff == 0 { mk_time(*tns) } else { mk_time(*tns).set_offset(Offset::Fixed(toff)) };
                        match (*sub, *assign) {
                            (false, false) => d0 + t,
                            (true, false) => d0 - t,
                            (false, true) => {
                                let mut x = d0;
                                x += t;
                                x
                            }
                            (true, true) => {
                                let mut x = d0;
                                x -= t;
                                x
                            }
                        }
                    }
                    _ => unreachable!(),
                };
                if (c.a.ns ^ c.a.day) % 4 == 0 || target.rem_euclid(tl::DAY_NS) <= 1 || target.rem_euclid(tl::DAY_NS) == tl::DAY_NS - 1 {
                    if let Err(why) = canonical_dt(&r) {
                        panic!("non-canonical result: {}", why);
                    }
                }
                (rd_dt(&r), Some(r.get_offset()))
            })
        };
        let family = match &c.op {
            Op::Unit { unit, .. } => format!("c04.{}", tl::UNIT_NAMES[*unit as usize]),
            Op::DateDays { .. } => "c04.date_days".to_string(),
            Op::DtDur { .. } => "c04.dt_duration".to_string(),
            Op::DtTime { .. } => "c04.dt_time".to_string(),
            Op::DateDur { .. } => "c04.date_duration".to_string(),
        };
        match (representable, r) {
            (true, Err(p)) => fail(&format!("{}.panics_though_representable", family), format!("{} = {}", what, fmt_instant(target)), p.short()),
            (true, Ok((got, goff))) => {
                if got != target {
                    return fail(&format!("{}.wrong_instant", family), format!("{} = {}", what, fmt_instant(target)), fmt_instant(got));
                }
                if let Some(o) = goff {
                    if o != off {
                        return fail(&format!("{}.offset_changed", family), format!("offset stays {:?}", off), format!("{:?}", o));
                    }
                }
                Verdict::Pass
            }
            (false, Ok((got, _))) => fail(
                &format!("{}.no_panic_when_unrepresentable", family),
                format!("{} panics (target {} days from 0001-01-01 is not representable)", what, target.div_euclid(tl::DAY_NS)),
                format!("returned {}", fmt_instant(got)),
            ),
            (false, Err(_)) => Verdict::Pass,
        }
    }
}

pub fn run(env: &mut Env) {
    let t = env.thorough();
    env.run_random::<AddSub>(if t { 40_000_000 } else { 6_000_000 });
}
