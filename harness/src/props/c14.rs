//! C14 — text-consuming APIs return a Result for every input and never panic.
use crate::engine::*;
use crate::gen::Inst;
use crate::model::cal;
use crate::model::fmt::{self, Kind, Tok};
use crate::obs::*;
use crate::props::{c11, c12};
use arbitrary::Unstructured;
use astrolabe::{CronSchedule, Date, DateTime, DateUtilities, Offset, OffsetUtilities, Time, TimeUtilities};
use serde::{Deserialize, Serialize};

#[derive(Debug, Clone, Hash, Serialize, Deserialize)]
pub struct Case {
    /// see API_NAMES
    pub api: u8,
    pub pattern: String,
    pub input: String,
}

pub const API_NAMES: [&str; 15] = [
    "Date::parse", "Time::parse", "DateTime::parse", "Date::from_str", "Time::from_str", "DateTime::from_str", "DateTime::parse_rfc3339",
    "CronSchedule::parse", "CronSchedule::from_str", "Date::format", "Time::format", "DateTime::format", "serde Date", "serde Time", "serde DateTime",
];

pub const ALPHABET: [&str; 12] = ["0", "1", "9", "-", "+", ":", "a", "Z", "'", "é", "日", "😀"];

fn validate_date(d: &Date) -> Result<(), String> {
    let (y, m, dd) = d.as_ymd();
    if !cal::valid_in_range(y as i64, m, dd) {
        return Err(format!("as_ymd {:?} is not a valid in-range date", (y, m, dd)));
    }
    let back = Date::from_ymd(y, m, dd).map_err(|e| format!("from_ymd(as_ymd) fails: {}", e))?;
    if back != *d {
        return Err("from_ymd(as_ymd) differs".into());
    }
    let _ = d.to_string();
    let _ = (d.weekday(), d.day_of_year());
    Ok(())
}

fn validate_time(t: &Time) -> Result<(), String> {
    if t.as_nanos() >= 86_400_000_000_000 {
        return Err(format!("as_nanos {} >= 24 h", t.as_nanos()));
    }
    if !matches!(t.get_offset(), Offset::Fixed(o) if o.abs() <= 86_399) {
        return Err(format!("offset {:?} outside +-23:59:59", t.get_offset()));
    }
    let _ = t.to_string();
    let _ = (t.hour(), t.minute(), t.second(), t.nano());
    Ok(())
}

fn validate_dt(d: &DateTime) -> Result<(), String> {
    if !matches!(d.get_offset(), Offset::Fixed(o) if o.abs() <= 86_399) {
        return Err(format!("offset {:?} outside +-23:59:59", d.get_offset()));
    }
    let z = d.set_offset(Offset::Fixed(0));
    let (h, mi, s) = z.as_hms();
    if h > 23 || mi > 59 || s > 59 || z.nano() > 999_999_999 {
        return Err(format!("time of day {:?}.{} out of the day", (h, mi, s), z.nano()));
    }
    let (y, m, dd) = z.as_ymd();
    if !cal::valid_in_range(y as i64, m, dd) {
        return Err(format!("as_ymd {:?} is not a valid in-range date", (y, m, dd)));
    }
    let back = DateTime::from_ymdhms(y, m, dd, h, mi, s).map_err(|e| format!("from_ymdhms(as_ymdhms) fails: {}", e))?;
    if back.timestamp() != z.timestamp() {
        return Err("from_ymdhms(as_ymdhms) differs".into());
    }
    let _ = z.to_string();
    // the value in its own offset must be readable too
    let _ = d.to_string();
    let _ = d.format("yyyy-MM-dd HH:mm:ss.nnnnn xxxxx e w D");
    Ok(())
}

/// runs one API call under catch_unwind; Ok(true) = returned Ok and the value validated
pub fn exercise(c: &Case) -> Result<Result<bool, String>, PanicInfo> {
    let date_v = || mk_date([738_000, -1_462, cal::MIN_DAY, cal::MAX_DAY, 0][c.input.len() % 5]);
    let dt_v = || {
        let k = c.input.len() % 5;
        mk_dt_off([738_000i128, -1_462, cal::MIN_DAY as i128 + 2, cal::MAX_DAY as i128 - 2, 0][k] * 86_400_000_000_000 + 43_200_123_456_789, [0, 3600, -86_399, 86_399, 19_800][k])
    };
    let time_v = || mk_time([0u64, 43_200_000_000_000, 86_399_999_999_999, 1, 3_600_000_000_000][c.input.len() % 5]).set_offset(Offset::Fixed([0, -3_600, 86_399, 45, 0][c.input.len() % 5]));
    catch(|| -> Result<bool, String> {
        Ok(match c.api {
            0 => match Date::parse(&c.input, &c.pattern) {
                Ok(d) => validate_date(&d).map(|_| true)?,
                Err(_) => false,
            },
            1 => match Time::parse(&c.input, &c.pattern) {
                Ok(t) => validate_time(&t).map(|_| true)?,
                Err(_) => false,
            },
            2 => match DateTime::parse(&c.input, &c.pattern) {
                Ok(d) => validate_dt(&d).map(|_| true)?,
                Err(_) => false,
            },
            3 => match c.input.parse::<Date>() {
                Ok(d) => validate_date(&d).map(|_| true)?,
                Err(_) => false,
            },
            4 => match c.input.parse::<Time>() {
                Ok(t) => validate_time(&t).map(|_| true)?,
                Err(_) => false,
            },
            5 => match c.input.parse::<DateTime>() {
                Ok(d) => validate_dt(&d).map(|_| true)?,
                Err(_) => false,
            },
            6 => match DateTime::parse_rfc3339(&c.input) {
                Ok(d) => validate_dt(&d).map(|_| true)?,
                Err(_) => false,
            },
            7 => CronSchedule::parse(&c.input).is_ok(),
            8 => c.input.parse::<CronSchedule>().is_ok(),
            9 => {
                let _s: String = date_v().format(&c.pattern);
                true
            }
            10 => {
                let _s: String = time_v().format(&c.pattern);
                true
            }
            11 => {
                let _s: String = dt_v().format(&c.pattern);
                true
            }
            12 => match serde_json::from_str::<Date>(&serde_json::to_string(&c.input).unwrap()) {
                Ok(d) => validate_date(&d).map(|_| true)?,
                Err(_) => false,
            },
            13 => match serde_json::from_str::<Time>(&serde_json::to_string(&c.input).unwrap()) {
                Ok(t) => validate_time(&t).map(|_| true)?,
                Err(_) => false,
            },
            _ => match serde_json::from_str::<DateTime>(&serde_json::to_string(&c.input).unwrap()) {
                Ok(d) => validate_dt(&d).map(|_| true)?,
                Err(_) => false,
            },
        })
    })
}

pub fn judge(c: &Case, cx: &mut Cx) -> Verdict {
    if c.api > 14 || c.pattern.len() > 1 << 22 || c.input.len() > 1 << 22 {
        return Verdict::Skip("malformed case");
    }
    if !c.input.is_ascii() || !c.pattern.is_ascii() {
        cx.nt("multi_byte_character");
    }
    if c.pattern.contains('\'') {
        cx.nt("quote_in_pattern");
    }
    if c.input.chars().count() < c.pattern.chars().count() {
        cx.label("input_shorter_than_pattern");
    }
    if c.input.starts_with(['+', '-', 'a', 'Z', ':']) {
        cx.nt("sign_or_letter_where_a_digit_is_expected");
    }
    cx.label(API_NAMES[c.api as usize]);
    match exercise(c) {
        Err(p) => fail(
            &format!("c14.panic:{}:{}", API_NAMES[c.api as usize], p.key()),
            format!("{}(input {:?}, pattern {:?}) returns without panicking", API_NAMES[c.api as usize], c.input, c.pattern),
            p.short(),
        ),
        Ok(Err(why)) => fail(
            &format!("c14.invalid_value:{}", API_NAMES[c.api as usize]),
            format!("{}(input {:?}, pattern {:?}): an Ok value is a valid in-range date/time", API_NAMES[c.api as usize], c.input, c.pattern),
            why,
        ),
        Ok(Ok(true)) => {
            cx.label("accepted");
            Verdict::Pass
        }
        Ok(Ok(false)) => {
            cx.label("rejected");
            Verdict::Pass
        }
    }
}

/// complete enumeration of short strings (deterministic; sub-check name distinct for evidence)
pub struct Short;
impl Prop for Short {
    type Case = Case;
    const NAME: &'static str = "C14.short_strings";
    const BYTES: usize = 48;
    fn gen(u: &mut Unstructured<'_>) -> arbitrary::Result<Case> {
        // random member of the enumerated family with slightly longer strings
        let syms = c11::syms_of(Kind::DateTime);
        let sym = *u.choose(&syms)?;
        let width = 1 + u.int_in_range(0..=6usize)?;
        let field: String = std::iter::repeat(sym).take(width).collect();
        let pattern = match u.int_in_range(0..=3u8)? {
            0 => field,
            1 => format!("'q'{}", field),
            2 => format!("{}'q'", field),
            _ => format!("{}''", field),
        };
        let n = u.int_in_range(0..=6usize)?;
        let mut input = String::new();
        for _ in 0..n {
            input.push_str(u.choose(&ALPHABET)?);
        }
        Ok(Case { api: u.int_in_range(0..=2u8)?, pattern, input })
    }
    fn check(c: &Case, cx: &mut Cx) -> Verdict {
        judge(c, cx)
    }
}

/// Long texts: field widths, digit runs, lists and padding whose *length* sits at and around the
/// thresholds where a length is stored in a narrower type or compared with a limit
/// (2^8, 2^16 and their neighbours; quick tier also 2^4..2^12), in patterns and in inputs.
pub struct Long;
pub const LENGTHS: [usize; 24] = [15, 16, 17, 31, 32, 33, 63, 64, 65, 127, 128, 129, 255, 256, 257, 1023, 1024, 1025, 4095, 4096, 4097, 65_535, 65_536, 65_537];
fn long_case(kind: u8, sym: char, len: usize, api: u8) -> Case {
    let rep = |c: &str, n: usize| c.repeat(n);
    match kind {
        // one symbol repeated: format renders it, parse reads a digit run of the same length
        0 => Case { api, pattern: rep(&sym.to_string(), len), input: rep("0", len - 1) + "7" },
        // ordinary pattern, very long digit run / fraction / padding in the input
        1 => Case { api, pattern: "yyyy-MM-dd".into(), input: format!("{}-05-02", rep("2", len)) },
        2 => Case { api, pattern: String::new(), input: format!("2022-05-02T15:30:20.{}Z", rep("1", len)) },
        3 => Case { api, pattern: String::new(), input: format!("2022-05-02T15:30:20.5+{}:00", rep("0", len)) },
        4 => Case { api, pattern: String::new(), input: format!("{} * * * *", vec!["30"; len / 3 + 1].join(",")) },
        5 => Case { api, pattern: String::new(), input: format!("0{}0 * * *", rep(" ", len)) },
        6 => Case { api, pattern: String::new(), input: format!("*/{} * * * *", rep("1", len)) },
        // long literal / quoted text around one field
        7 => Case { api, pattern: format!("'{}'{}", rep("q", len), sym), input: format!("{}1", rep("q", len)) },
        _ => Case { api, pattern: format!("{}{}", sym, rep("-", len)), input: format!("1{}", rep("-", len)) },
    }
}
impl Prop for Long {
    type Case = Case;
    const NAME: &'static str = "C14.length_thresholds";
    const BYTES: usize = 32;
    fn gen(u: &mut Unstructured<'_>) -> arbitrary::Result<Case> {
        let len = (*u.choose(&LENGTHS[..21])? as i64 + u.range_i64(-2, 2)?).max(1) as usize;
        let kind = u.int_in_range(0..=8u8)?;
        let syms = c11::syms_of(Kind::DateTime);
        let sym = *u.choose(&syms)?;
        let api = match kind {
            0 | 7 | 8 => {
                let date = fmt::DATE_SYMS.contains(&sym);
                *u.choose(if date { &[0u8, 2, 9, 11] } else { &[1u8, 2, 10, 11] })?
            }
            1 => *u.choose(&[0u8, 2, 3])?,
            2 | 3 => *u.choose(&[5u8, 6, 14])?,
            _ => *u.choose(&[7u8, 8])?,
        };
        Ok(long_case(kind, sym, len, api))
    }
    fn check(c: &Case, cx: &mut Cx) -> Verdict {
        if c.pattern.len() > 255 || c.input.len() > 255 {
            cx.nt("text_longer_than_255_bytes");
        }
        if c.pattern.len() > 65_535 || c.input.len() > 65_535 {
            cx.nt("text_longer_than_65535_bytes");
        }
        judge(c, cx)
    }
}

/// characters whose upper- or lower-case mapping has a different number of characters
/// (ligatures, sharp s, dotted I, ...): a case-insensitive comparison built on to_uppercase /
/// to_lowercase can "match" a text of a different length
pub fn special_casing_chars() -> &'static Vec<(char, String, String)> {
    static S: std::sync::OnceLock<Vec<(char, String, String)>> = std::sync::OnceLock::new();
    S.get_or_init(|| {
        let mut v = Vec::new();
        for cp in 0x80u32..0x1_0000 {
            if let Some(c) = char::from_u32(cp) {
                let up: String = c.to_uppercase().collect();
                let lo: String = c.to_lowercase().collect();
                if up.chars().count() > 1 || lo.chars().count() > 1 {
                    v.push((c, up, lo));
                }
            }
        }
        v
    })
}

/// every way of replacing a run of ASCII letters of `text` by one special-casing character whose
/// upper- or lower-case expansion equals that run (ignoring case)
pub fn case_fold_collisions(text: &str) -> Vec<String> {
    let cs: Vec<char> = text.chars().collect();
    let mut out = Vec::new();
    for (c, up, lo) in special_casing_chars() {
        for exp in [up, lo] {
            let n = exp.chars().count();
            if n < 2 || !exp.is_ascii() {
                continue;
            }
            for pos in 0..cs.len().saturating_sub(n - 1) {
                let run: String = cs[pos..pos + n].iter().collect();
                if run.eq_ignore_ascii_case(exp) {
                    let mut v = cs.clone();
                    v.splice(pos..pos + n, std::iter::once(*c));
                    out.push(v.into_iter().collect());
                }
            }
        }
    }
    out
}

pub fn strings_up_to(len: usize) -> Vec<String> {
    let mut all = vec![String::new()];
    let mut frontier = vec![String::new()];
    for _ in 0..len {
        let mut next = Vec::with_capacity(frontier.len() * ALPHABET.len());
        for s in &frontier {
            for a in ALPHABET {
                let mut t = s.clone();
                t.push_str(a);
                next.push(t);
            }
        }
        all.extend(next.iter().cloned());
        frontier = next;
    }
    all
}

/// grammar-aware + mutational
pub struct Mutated;
impl Prop for Mutated {
    type Case = Case;
    const NAME: &'static str = "C14.mutated";
    const BYTES: usize = 320;
    fn gen(u: &mut Unstructured<'_>) -> arbitrary::Result<Case> {
        const HOSTILE: &[&str] = &["0", "1", "9", "-", "+", ":", ".", "a", "Z", "T", "'", "''", "é", "日", "😀", " ", "\u{0}", "\t", "\u{a0}", "/", "*", ","];
        let family = u.int_in_range(0..=12u8)?;
        let (api, mut pattern, mut input): (u8, String, String) = match family {
            12 => {
                // a cron expression with one long junk value (a few ASCII characters, then a run of 2-,
                // 3- or 4-byte characters) as plain value, list member, range end or step: whatever
                // cuts or echoes the rejected value at a fixed byte position meets a character boundary
                let mut fields: Vec<String> = ["0", "0", "1", "*", "*"].iter().map(|f| f.to_string()).collect();
                let k = *u.choose(&[3usize, 3, 4, 4, 0, 1, 2])?;
                let lead = *u.choose(&["", "x", "xy", "jan", "1", "12", "mon", "*/"])?;
                let ch = *u.choose(&["é", "ß", "日", "€", "😀", "𝄞"])?;
                let n = u.int_in_range(3..=60usize)?;
                let junk = format!("{}{}", lead, ch.repeat(n));
                fields[k] = match u.int_in_range(0..=4u8)? {
                    0 => junk,
                    1 => format!("1,{}", junk),
                    2 => format!("{},2", junk),
                    3 => format!("1-{}", junk),
                    _ => format!("{}-5", junk),
                };
                (*u.choose(&[7u8, 8])?, String::new(), fields.join(" "))
            }
            11 => {
                // several sub-second fields of different widths in one pattern (the parser adds them
                // up): digits at their maximum, at the last second of the day and elsewhere
                let dt = u.ratio(1, 2)?;
                let mut pattern = String::from(if dt { "yyyy-MM-dd HH:mm:ss" } else { "HH:mm:ss" });
                let mut input = String::from(if dt { *u.choose(&["2022-05-02 ", "-0001-12-31 ", "5879611-07-12 ", "0001-01-01 "])? } else { "" });
                input.push_str(*u.choose(&["23:59:59", "23:59:59", "12:00:00", "00:00:00", "11:59:59"])?);
                let mut widths: Vec<usize> = vec![1, 2, 3, 4, 5];
                let keep = u.int_in_range(2..=5usize)?;
                while widths.len() > keep {
                    let i = u.int_in_range(0..=widths.len() - 1)?;
                    widths.remove(i);
                }
                if u.ratio(1, 2)? {
                    widths.reverse();
                }
                for w in widths {
                    pattern.push(' ');
                    pattern.push_str(&"n".repeat(w));
                    let digits = [1usize, 2, 3, 6, 9][w - 1];
                    input.push(' ');
                    match u.int_in_range(0..=3u8)? {
                        0 => input.push_str(&"9".repeat(digits)),
                        1 => {
                            input.push('9');
                            input.push_str(&"0".repeat(digits - 1));
                        }
                        2 => input.push_str(&"5".repeat(digits)),
                        _ => {
                            for _ in 0..digits {
                                input.push(char::from(b'0' + u.int_in_range(0..=9u8)?));
                            }
                        }
                    }
                }
                if u.ratio(1, 4)? {
                    pattern.push_str(" xxx");
                    input.push_str(*u.choose(&[" +00:00", " -05:30", " +23:59"])?);
                }
                (if dt { 2 } else { 1 }, pattern, input)
            }
            10 => {
                // long fields: one symbol repeated up to 40 times (optionally two fields), filled with
                // a mix of digits and 1-4 byte characters, so that a single field spans 16/32/64/128
                // bytes at a non-boundary; every parser slice and every error message sees it
                const FILL: &[&str] = &["0", "1", "9", "-", "+", "a", "é", "ß", "€", "日", "𝄞", "😀"];
                let kind = *u.choose(&[Kind::Date, Kind::Time, Kind::DateTime])?;
                let syms = c11::syms_of(kind);
                let mut pattern = String::new();
                let mut input = String::new();
                for _ in 0..u.int_in_range(1..=2u8)? {
                    let sym = *u.choose(&syms)?;
                    let w = if u.ratio(1, 2)? { u.int_in_range(1..=40usize)? } else { *u.choose(&[7usize, 8, 9, 10, 11, 12, 15, 16, 17, 31, 32, 33])? };
                    for _ in 0..w {
                        pattern.push(sym);
                    }
                    let n = (w as i64 + u.range_i64(-1, 1)?).max(0) as usize;
                    let (a, b) = (*u.choose(FILL)?, *u.choose(FILL)?);
                    let lead = u.int_in_range(0..=3usize)?;
                    for i in 0..n {
                        input.push_str(if i < lead { a } else if u.ratio(1, 8)? { *u.choose(FILL)? } else { b });
                    }
                }
                let api = match kind {
                    Kind::Date => 0,
                    Kind::Time => 1,
                    Kind::DateTime => 2,
                };
                (api, pattern, input)
            }
            0..=4 => {
                // C11 / C12 pattern with its own formatted output
                let kind = *u.choose(&[Kind::Date, Kind::Time, Kind::DateTime])?;
                let (v, off) = c11::gen_value(u, kind)?;
                let toks = if u.ratio(1, 2)? { c11::gen_tokens(u, kind, 8)? } else { c12_pattern(u, kind, v, off)? };
                let pattern = fmt::pattern_of(&toks);
                let text = c11::format_value(kind, v, off, &pattern).unwrap_or_default();
                let api = match kind {
                    Kind::Date => 0,
                    Kind::Time => 1,
                    Kind::DateTime => 2,
                };
                (api, pattern, text)
            }
            5 => {
                let base = *u.choose(&["2022-05-02", "-0005-02-29", "12345-12-31", "12:32:01", "23:59:59", "2022-05-02T15:30:20Z", "2022-05-02T15:30:20.123456789+05:30", "9999-12-31T23:59:59.9-23:59"])?;
                (*u.choose(&[3u8, 4, 5, 6, 12, 13, 14])?, String::new(), base.to_string())
            }
            6 => {
                let base = *u.choose(&["* * * * *", "*/5 0-23 1,15 jan-dec mon-fri", "0 12 31 12 7", "59 23 */2 FEB sun", "1-5,10-15/3 * * * *", "0 0 29 2 *"])?;
                (*u.choose(&[7u8, 8])?, String::new(), base.to_string())
            }
            7 => {
                // range-end values with offsets: the parsed local time is representable, the UTC instant may not be
                let end = u.ratio(1, 2)?;
                let day = if end { cal::MAX_DAY - u.int_in_range(0..=1i64)? } else { cal::MIN_DAY + u.int_in_range(0..=1i64)? };
                let (y, m, d) = cal::ymd_from_days(day);
                let h = u.int_in_range(0..=23u32)?;
                let oh = u.int_in_range(0..=23u32)?;
                let sign = if u.ratio(1, 2)? { '+' } else { '-' };
                (2, "y-MM-dd HH:mm xxx".to_string(), format!("{}-{:02}-{:02} {:02}:30 {}{:02}:00", y, m, d, h, sign, oh))
            }
            _ => {
                // format with hostile patterns
                let n = u.int_in_range(0..=8usize)?;
                let mut p = String::new();
                for _ in 0..n {
                    p.push_str(u.choose(&["y", "M", "d", "H", "'", "''", "é", "日", "a", "x", "X", "n", "e", "G", "-", " ", "😀", "D", "b"])?);
                }
                (*u.choose(&[9u8, 10, 11])?, p, "x".repeat(u.int_in_range(0..=4usize)?))
            }
        };
        // 0..=3 random edits
        let edits = if family == 7 { 0 } else if family == 10 || family == 11 || family == 12 { u.int_in_range(0..=1u8)? } else { u.int_in_range(0..=3u8)? };
        for _ in 0..edits {
            let target_pattern = !pattern.is_empty() && u.ratio(1, 3)?;
            let s: &mut String = if target_pattern { &mut pattern } else { &mut input };
            let mut cs: Vec<char> = s.chars().collect();
            let pos = if cs.is_empty() { 0 } else { u.int_in_range(0..=cs.len() - 1)? };
            match u.int_in_range(0..=6u8)? {
                0 if !cs.is_empty() => {
                    cs.remove(pos);
                }
                1 => {
                    if u.ratio(1, 6)? {
                        cs.insert(pos, c11::random_non_ascii(u)?);
                    } else {
                        for ch in u.choose(HOSTILE)?.chars() {
                            cs.insert(pos, ch);
                        }
                    }
                }
                2 if !cs.is_empty() => cs[pos] = u.choose(HOSTILE)?.chars().next().unwrap(),
                3 => cs.truncate(pos),
                4 if !cs.is_empty() => {
                    let c = cs[pos];
                    cs.insert(pos, c);
                }
                5 => cs.insert(pos, '\''),
                _ => {
                    // byte-length preserving: k ASCII characters replaced by one k-byte character
                    let ch = *u.choose(&['é', '日', '😀'])?;
                    let k = ch.len_utf8();
                    if pos + k <= cs.len() && cs[pos..pos + k].iter().all(|c| c.is_ascii()) {
                        cs.splice(pos..pos + k, std::iter::once(ch));
                    }
                }
            }
            *s = cs.into_iter().collect();
        }
        if u.ratio(1, 40)? && !pattern.is_empty() {
            std::mem::swap(&mut pattern, &mut input);
        }
        Ok(Case { api, pattern, input })
    }
    fn check(c: &Case, cx: &mut Cx) -> Verdict {
        judge(c, cx)
    }
}

fn c12_pattern(u: &mut Unstructured, kind: Kind, v: Inst, off: i32) -> arbitrary::Result<Vec<Tok>> {
    c12::gen_pattern_pub(u, kind, v, off)
}

pub fn run(env: &mut Env) {
    let t = env.thorough();
    // (1) complete enumeration: one-field patterns x all short strings
    let maxlen = if t { 4 } else { 3 };
    let inputs = std::sync::Arc::new(strings_up_to(maxlen));
    let syms = c11::syms_of(Kind::DateTime);
    let mut patterns: Vec<String> = Vec::new();
    for &s in &syms {
        for w in 1..=6usize {
            let f: String = std::iter::repeat(s).take(w).collect();
            patterns.push(f.clone());
            patterns.push(format!("'q'{}", f));
            patterns.push(format!("{}'q'", f));
            patterns.push(format!("{}''", f));
        }
    }
    let patterns = std::sync::Arc::new(patterns);
    let (pp, ii) = (patterns.clone(), inputs.clone());
    env.run_enum::<Short, _>(patterns.len() as u64, move |k| {
        let p = pp[k as usize].clone();
        let ii = ii.clone();
        let first = p.chars().find(|c| c.is_ascii_alphabetic() && *c != 'q').unwrap_or('y');
        let apis: Vec<u8> = if fmt::DATE_SYMS.contains(&first) { vec![0, 2] } else { vec![1, 2] };
        (0..ii.len()).flat_map(move |j| {
            let p = p.clone();
            let input = ii[j].clone();
            apis.clone().into_iter().map(move |api| Case { api, pattern: p.clone(), input: input.clone() })
        })
    });
    // short *pattern* strings against fixed inputs, for parse and for format
    let pats = std::sync::Arc::new(strings_up_to(maxlen.min(4)).into_iter().map(|s| s.replace('0', "y").replace('1', "H").replace('9', "M")).collect::<Vec<_>>());
    let p2 = pats.clone();
    env.run_enum::<Short, _>(pats.len() as u64, move |k| {
        let p = p2[k as usize].clone();
        let fixed = ["", "2022", "12:3", "'", "é1", "-5", "+01:00"];
        let mut v = Vec::new();
        for api in [9u8, 10, 11] {
            v.push(Case { api, pattern: p.clone(), input: "x".repeat(k as usize % 5) });
        }
        for input in fixed {
            for api in [0u8, 1, 2] {
                v.push(Case { api, pattern: p.clone(), input: input.to_string() });
            }
        }
        v.into_iter()
    });
    // the same short strings through the pattern-less APIs
    let i3 = inputs.clone();
    env.run_enum::<Short, _>(inputs.len() as u64, move |k| {
        let s = i3[k as usize].clone();
        [3u8, 4, 5, 6, 7, 8, 12, 13, 14].into_iter().map(move |api| Case { api, pattern: String::new(), input: s.clone() })
    });
    // byte-length preserving multi-byte substitutions at every position of valid texts: the byte
    // length checks of the fixed-position parsers still pass, the slices then end inside a character
    let bases: Vec<(Vec<u8>, &str, &str)> = vec![
        (vec![5, 6, 14], "", "2022-05-02T15:30:20Z"),
        (vec![5, 6, 14], "", "2022-05-02T15:30:20+05:30"),
        (vec![5, 6, 14], "", "2022-05-02T15:30:20.123456789-05:30"),
        (vec![5, 6, 14], "", "0001-01-01T00:00:00.5+00:00"),
        (vec![3, 12], "", "2022-05-02"),
        (vec![3, 12], "", "-0005-02-29"),
        (vec![4, 13], "", "12:32:01"),
        (vec![7, 8], "", "*/5 0-23 1,15 jan-dec mon-fri"),
        (vec![2], "yyyy-MM-dd HH:mm:ss.nnnnn xxxxx", "2022-05-02 12:32:01.000000001 +05:30:15"),
        (vec![2], "y-M-d h:m:s a XXX", "2022-5-2 1:2:3 PM -08:00"),
        (vec![0], "yyyyMMdd GGGG eeee", "20220502 Anno Domini Monday"),
        (vec![0], "yyyy-DDD", "2024-366"),
        (vec![1], "HHmmssnnn xx", "123201999 +0530"),
    ];
    let mut subs: Vec<Case> = Vec::new();
    for (apis, pattern, text) in &bases {
        let cs: Vec<char> = text.chars().collect();
        for ch in ['é', '日', '😀'] {
            let k = ch.len_utf8();
            for pos in 0..cs.len() {
                // same byte length
                if pos + k <= cs.len() {
                    let mut v = cs.clone();
                    v.splice(pos..pos + k, std::iter::once(ch));
                    for api in apis {
                        subs.push(Case { api: *api, pattern: pattern.to_string(), input: v.iter().collect() });
                    }
                }
                // same character count
                let mut v = cs.clone();
                v[pos] = ch;
                for api in apis {
                    subs.push(Case { api: *api, pattern: pattern.to_string(), input: v.iter().collect() });
                }
            }
        }
        // the same substitutions inside the pattern
        if !pattern.is_empty() {
            let ps: Vec<char> = pattern.chars().collect();
            for ch in ['é', '日'] {
                for pos in 0..ps.len() {
                    let mut v = ps.clone();
                    v[pos] = ch;
                    for api in apis {
                        subs.push(Case { api: *api, pattern: v.iter().collect(), input: text.to_string() });
                        subs.push(Case { api: *api + 9, pattern: v.iter().collect(), input: String::new() });
                    }
                }
            }
        }
    }
    // case-fold collisions: names of the symbol tables with a run of letters replaced by one
    // character whose case mapping expands to that run ("Auguﬆ" for "August"), at the end of the
    // input and followed by more text
    let names: Vec<(u8, &str, String)> = {
        let mut v: Vec<(u8, &str, String)> = Vec::new();
        for m in crate::model::cal::MONTH_WIDE {
            v.push((0, "yyyy-dd-MMMM", format!("2022-02-{}", m)));
            v.push((2, "MMMM d, yyyy HH:mm", format!("{} 2, 2022 10:30", m)));
            v.push((0, "MMM''yy", format!("{}'22", &m[..3])));
        }
        for d in crate::model::cal::WDAY_WIDE {
            v.push((0, "yyyy-MM-dd eeee", format!("2022-05-02 {}", d)));
            v.push((2, "eeee', 'HH", format!("{}, 10", d)));
        }
        for t in ["Anno Domini", "Before Christ", "1st quarter", "2nd quarter", "3rd quarter", "4th quarter"] {
            v.push((0, if t.ends_with("quarter") { "yyyy qqqq" } else { "yyyy GGGG" }, format!("2022 {}", t)));
        }
        for t in ["midnight", "noon", "a.m.", "p.m.", "AM", "pm"] {
            v.push((1, "hh:mm:ss bbbb", format!("12:00:00 {}", t)));
            v.push((1, "hh:mm:ss b", format!("12:00:00 {}", t)));
            v.push((1, "bbbb hh", format!("{} 12", t)));
        }
        for t in ["jan-dec", "MON-FRI", "sun", "Sat,Sun"] {
            v.push((7, "", format!("0 0 1 {} {}", if t.contains('n') && t.len() > 3 && t.starts_with('j') { t } else { "*" }, if t.starts_with('j') { "*" } else { t })));
        }
        v
    };
    let mut folds = Vec::new();
    for (api, pattern, text) in &names {
        for mutated in case_fold_collisions(text) {
            folds.push(Case { api: *api, pattern: pattern.to_string(), input: mutated.clone() });
            if *api == 7 {
                folds.push(Case { api: 8, pattern: String::new(), input: mutated });
            }
        }
    }
    let nfolds = folds.len();
    env.run_list::<Mutated>(folds);
    env.exhaustive_parts.push(format!("C14: {} case-fold collisions (a run of letters of a month/weekday/era/quarter/period/cron name replaced by one special-casing character such as a ligature)", nfolds));
    let nsubs = subs.len();
    env.run_list::<Mutated>(subs);
    env.exhaustive_parts.push(format!("C14: {} multi-byte substitutions (byte-length preserving and character-count preserving, at every position) of 13 valid texts/patterns", nsubs));
    env.exhaustive_parts.push(format!(
        "C14: all strings of length <= {} over a 12-symbol hostile alphabet x {} one-field patterns (19 symbols x widths 1..=6 x 4 wrappings) through parse; the same strings as patterns (format and parse) and through from_str / parse_rfc3339 / CronSchedule / serde",
        maxlen,
        patterns.len()
    ));
    // (1c) length thresholds: every symbol x every length atom through format and parse; the
    // pattern-less readers with digit runs, lists and padding of those lengths
    let mut longs: Vec<Case> = Vec::new();
    for &len in LENGTHS.iter() {
        if !t && len > 4097 && len != 65_536 {
            continue;
        }
        for &sym in &c11::syms_of(Kind::DateTime) {
            let date = fmt::DATE_SYMS.contains(&sym);
            for &api in if date { &[0u8, 2, 9, 11] } else { &[1u8, 2, 10, 11] } {
                longs.push(long_case(0, sym, len, api));
                if len <= 4097 {
                    longs.push(long_case(7, sym, len, api));
                    longs.push(long_case(8, sym, len, api));
                }
            }
        }
        for api in [0u8, 2, 3] {
            longs.push(long_case(1, 'y', len, api));
        }
        for api in [5u8, 6, 14] {
            longs.push(long_case(2, 'y', len, api));
            longs.push(long_case(3, 'y', len, api));
        }
        for api in [7u8, 8] {
            for kind in 4..=6u8 {
                longs.push(long_case(kind, 'y', len, api));
            }
        }
    }
    env.run_list::<Long>(longs);
    env.run_random::<Long>(if t { 200_000 } else { 20_000 });
    // (2) grammar-aware + mutational
    env.run_random::<Mutated>(if t { 20_000_000 } else { 3_000_000 });
    env.run_random::<Short>(if t { 2_000_000 } else { 300_000 });
    // (3) committed fuzz corpus / crash inputs replayed through the same body
    replay_corpus(env);
}

/// decode a libFuzzer input for the text target: byte 0 = api, then lossy UTF-8, split at the first '\n'
pub fn decode_fuzz_text(data: &[u8]) -> Option<Case> {
    if data.is_empty() {
        return None;
    }
    let api = data[0] % 15;
    let text = String::from_utf8_lossy(&data[1..]).into_owned();
    let (pattern, input) = match text.split_once('\n') {
        Some((p, i)) => (p.to_string(), i.to_string()),
        None => (String::new(), text),
    };
    Some(Case { api, pattern, input })
}

fn replay_corpus(env: &mut Env) {
    let mut cases = Vec::new();
    for dir in ["/verif/corpus/fuzz/text", "/verif/regressions/C14/fuzz"] {
        if let Ok(rd) = std::fs::read_dir(dir) {
            let mut files: Vec<_> = rd.filter_map(|e| e.ok()).map(|e| e.path()).collect();
            files.sort();
            for f in files {
                if let Ok(bytes) = std::fs::read(&f) {
                    if let Some(c) = decode_fuzz_text(&bytes) {
                        cases.push(c);
                    }
                }
            }
        }
    }
    if !cases.is_empty() {
        env.notes.push(format!("replayed {} committed fuzz corpus / crash inputs", cases.len()));
        env.run_list::<Mutated>(cases);
    }
}
