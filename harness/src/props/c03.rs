//! C03 — Unix timestamps and ordering are a faithful linear time line.
use crate::engine::*;
use crate::gen::{self, Inst};
use crate::model::{cal, tl};
use crate::obs::*;
use crate::ensure_eq;
use arbitrary::Unstructured;
use astrolabe::{Date, DateTime, DateUtilities, Offset, OffsetUtilities, Time, TimeUtilities};
use serde::{Deserialize, Serialize};
use std::cmp::Ordering;

pub const MIN_TS: i64 = (cal::MIN_DAY - cal::DAYS_TO_1970) * 86_400;
pub const MAX_TS: i64 = (cal::MAX_DAY - cal::DAYS_TO_1970) * 86_400 + 86_399;

#[derive(Debug, Clone, Hash, Serialize, Deserialize)]
pub struct TsCase {
    pub ts: i64,
}

pub struct Timestamp;
impl Prop for Timestamp {
    type Case = TsCase;
    const NAME: &'static str = "C03.timestamp";
    const BYTES: usize = 24;
    fn gen(u: &mut Unstructured<'_>) -> arbitrary::Result<TsCase> {
        let k = u.below(12)?;
        let ts = match k {
            0 => *u.choose(&[0i64, 1, -1, 86_399, 86_400, 86_401, -86_399, -86_400, -86_401])?,
            1 => MIN_TS + *u.choose(&[0i64, 1, -1, 86_399, 86_400, -86_400, -86_399, -86_401])?,
            2 => MAX_TS + *u.choose(&[0i64, 1, -1, -86_399, -86_400, 86_400, 86_399, 86_401])?,
            3 => *u.choose(&[i64::MIN, i64::MIN + 1, i64::MAX, i64::MAX - 1, i64::MAX - 62_135_596_800, i64::MAX - 62_135_596_799, i64::MIN + 62_135_596_800])?,
            4 | 5 => {
                // negative, not day aligned
                -(u.range_i64(0, 3_000_000)? * 86_400 + u.range_i64(1, 86_399)?)
            }
            6 => u.range_i64(i64::MIN, i64::MAX)?,
            7 => {
                // just outside
                if u.coin(1, 2)? {
                    MAX_TS + u.range_i64(1, 200_000)?
                } else {
                    MIN_TS - u.range_i64(1, 200_000)?
                }
            }
            8 => {
                let d = gen::day(u)?;
                (d - cal::DAYS_TO_1970) * 86_400 + u.range_i64(0, 86_399)?
            }
            _ => u.range_i64(MIN_TS, MAX_TS)?,
        };
        Ok(TsCase { ts })
    }
    fn check(c: &TsCase, cx: &mut Cx) -> Verdict {
        let ts = c.ts;
        let in_range = (MIN_TS..=MAX_TS).contains(&ts);
        if in_range {
            cx.label("in_range");
            if ts < 0 && ts.rem_euclid(86_400) != 0 {
                cx.nt("negative_unaligned");
            }
            if ts - MIN_TS < 86_400 || MAX_TS - ts < 86_400 {
                cx.nt("in_range_edge_day");
            }
        } else {
            cx.label("out_of_range");
            if (ts > MAX_TS && ts - MAX_TS <= 86_400) || (ts < MIN_TS && MIN_TS - ts <= 86_400) {
                cx.nt("out_of_range_within_a_day");
            }
            if ts > i64::MAX - 62_135_596_801 || ts < i64::MIN + 62_135_596_801 {
                cx.nt("i64_extreme");
            }
        }
        let rdt = catch(|| {
            let v = DateTime::from_timestamp(ts);
            (v.timestamp(), v.as_ymdhms(), v.nano(), v.get_offset())
        });
        let rd = catch(|| {
            let v = Date::from_timestamp(ts);
            (v.timestamp(), v.as_ymd())
        });
        if !in_range {
            if let Ok(v) = rdt {
                return fail("c03.dt_from_timestamp_no_panic", format!("DateTime::from_timestamp({}) panics (out of range)", ts), format!("returned {:?}", v));
            }
            if let Ok(v) = rd {
                return fail("c03.date_from_timestamp_no_panic", format!("Date::from_timestamp({}) panics (out of range)", ts), format!("returned {:?}", v));
            }
            return Verdict::Pass;
        }
        let f = tl::fields((ts as i128 + tl::EPOCH_1970_S as i128) * tl::NS);
        match rdt {
            Err(p) => return fail("c03.dt_from_timestamp_panic", format!("DateTime::from_timestamp({}) returns", ts), p.short()),
            Ok((back, ymdhms, nano, off)) => {
                ensure_eq!("c03.dt_timestamp_roundtrip", format!("DateTime::from_timestamp({}).timestamp()", ts), ts, back);
                ensure_eq!(
                    "c03.dt_from_timestamp_fields",
                    format!("fields of timestamp {}", ts),
                    (f.year, f.month, f.dom, f.hour, f.minute, f.second),
                    (ymdhms.0 as i64, ymdhms.1, ymdhms.2, ymdhms.3, ymdhms.4, ymdhms.5)
                );
                ensure_eq!("c03.dt_from_timestamp_nano", "nano()", 0, nano);
                ensure_eq!("c03.dt_from_timestamp_offset", "get_offset()", Offset::Fixed(0), off);
            }
        }
        match rd {
            Err(p) => return fail("c03.date_from_timestamp_panic", format!("Date::from_timestamp({}) returns", ts), p.short()),
            Ok((back, ymd)) => {
                ensure_eq!("c03.date_timestamp_floor", format!("Date::from_timestamp({}).timestamp()", ts), ts.div_euclid(86_400) * 86_400, back);
                ensure_eq!("c03.date_from_timestamp_fields", "as_ymd", (f.year, f.month, f.dom), (ymd.0 as i64, ymd.1, ymd.2));
            }
        }
        Verdict::Pass
    }
}

#[derive(Debug, Clone, Hash, Serialize, Deserialize)]
pub struct PairCase {
    pub a: Inst,
    pub b: Inst,
    pub oa: i32,
    pub ob: i32,
}

fn sgn<T: PartialOrd + Default>(x: T) -> i32 {
    let z = T::default();
    if x > z {
        1
    } else if x < z {
        -1
    } else {
        0
    }
}

pub struct Order;
impl Prop for Order {
    type Case = PairCase;
    const NAME: &'static str = "C03.order";
    const BYTES: usize = 96;
    fn gen(u: &mut Unstructured<'_>) -> arbitrary::Result<PairCase> {
        // one case in eight may lie on the outermost days (the values are then built by
        // arithmetic on an offset-carrying value, see obs::mk_dt_off_late)
        let m = if u.coin(1, 8)? { 0 } else { 1 };
        let a = if m == 0 && u.coin(1, 2)? { Inst { day: if u.coin(1, 2)? { cal::MAX_DAY } else { cal::MIN_DAY }, ns: gen::day_ns(u)? } } else { gen::inst(u, m)? };
        let b = gen::inst_near(u, a, m)?;
        let oa = gen::offset(u)?;
        // both operands in the same zone one time in four
        let ob = if u.coin(1, 4)? { oa } else { gen::offset(u)? };
        Ok(PairCase { a, b, oa, ob })
    }
    fn check(c: &PairCase, cx: &mut Cx) -> Verdict {
        if !c.a.valid() || !c.b.valid() || c.oa.unsigned_abs() > 86_399 || c.ob.unsigned_abs() > 86_399 {
            return Verdict::Skip("malformed case");
        }
        let edge = c.a.day < cal::MIN_DAY + 1 || c.a.day > cal::MAX_DAY - 1 || c.b.day < cal::MIN_DAY + 1 || c.b.day > cal::MAX_DAY - 1;
        let (ia, ib) = (c.a.i(), c.b.i());
        if edge {
            cx.nt("operand_on_an_outermost_day");
            if !tl::representable(ia + c.oa as i128 * tl::NS) || !tl::representable(ib + c.ob as i128 * tl::NS) {
                cx.nt("operand_whose_local_reading_is_not_representable");
            }
        }
        let delta = ia - ib;
        if c.oa != c.ob && delta.abs() < tl::DAY_NS {
            cx.nt("different_offsets_within_a_day");
        }
        if (ia < 0) != (ib < 0) {
            cx.nt("straddles_day0");
        }
        if delta == 0 {
            cx.nt("equal_instants");
        }
        if delta != 0 && delta.abs() < tl::NS {
            cx.nt("subsecond_apart");
        }
        if ia < 0 && ib < 0 {
            cx.label("both_bc");
        }
        let want = ia.cmp(&ib);
        let route = ((c.a.ns ^ c.b.ns ^ c.a.day) % 24) as u8;
        let late = edge || route >= 21;
        let r = catch(|| {
            let a = if late { mk_dt_off_late(ia, c.oa) } else if route < 12 { mk_dt_route(ia, route).set_offset(Offset::Fixed(c.oa)) } else {
                let (v, local) = mk_dt_off_pin(ia, c.oa);
                if local {
                    cx.nt("operand_carries_Offset::Local");
                }
                v
            };
            let b = if late { mk_dt_off_late(ib, c.ob) } else if route < 12 { mk_dt_route(ib, (route + 7) % 12).set_offset(Offset::Fixed(c.ob)) } else { mk_dt_off(ib, c.ob) };
            let stamps = (a.timestamp(), b.timestamp());
            let since = [
                sgn(a.years_since(&b)),
                sgn(a.months_since(&b)),
                sgn(a.days_since(&b)),
                sgn(a.hours_since(&b)),
                sgn(a.minutes_since(&b)),
                sgn(a.seconds_since(&b)),
                sgn(a.millis_since(&b)),
                sgn(a.micros_since(&b)),
                sgn(a.nanos_since(&b)),
            ];
            (a == b, a != b, a < b, a <= b, a > b, a >= b, a.cmp(&b), a.partial_cmp(&b), b.cmp(&a), since, stamps)
        });
        let (eq, ne, lt, le, gt, ge, cmp, pcmp, rcmp, since, stamps) = match r {
            Ok(v) => v,
            Err(p) => return fail("c03.order_panic", "comparisons return", p.short()),
        };
        let what = format!("{} [{}] vs {} [{}]", fmt_instant(ia), c.oa, fmt_instant(ib), c.ob);
        // timestamp() counts whole seconds: the instant floored to the second, whatever the
        // sub-second part, the era and the offset
        ensure_eq!(
            "c03.timestamp_of_instant",
            format!("timestamp() of both operands of {}", what),
            ((ia.div_euclid(tl::NS) as i64) - tl::EPOCH_1970_S, (ib.div_euclid(tl::NS) as i64) - tl::EPOCH_1970_S),
            stamps
        );
        ensure_eq!("c03.eq", format!("== of {}", what), want == Ordering::Equal, eq);
        ensure_eq!("c03.ne", format!("!= of {}", what), want != Ordering::Equal, ne);
        ensure_eq!("c03.lt", format!("< of {}", what), want == Ordering::Less, lt);
        ensure_eq!("c03.le", format!("<= of {}", what), want != Ordering::Greater, le);
        ensure_eq!("c03.gt", format!("> of {}", what), want == Ordering::Greater, gt);
        ensure_eq!("c03.ge", format!(">= of {}", what), want != Ordering::Less, ge);
        ensure_eq!("c03.cmp", format!("cmp of {}", what), want, cmp);
        ensure_eq!("c03.partial_cmp", format!("partial_cmp of {}", what), Some(want), pcmp);
        ensure_eq!("c03.cmp_reverse", format!("reverse cmp of {}", what), want.reverse(), rcmp);
        let ws = match want {
            Ordering::Less => -1,
            Ordering::Equal => 0,
            Ordering::Greater => 1,
        };
        const NAMES: [&str; 9] = ["years", "months", "days", "hours", "minutes", "seconds", "millis", "micros", "nanos"];
        for (i, s) in since.iter().enumerate() {
            if *s != 0 && *s != ws {
                return fail(
                    "c03.since_sign_contradicts_order",
                    format!("sign of {}_since in {{0, {}}} for {}", NAMES[i], ws, what),
                    format!("{}", s),
                );
            }
        }
        ensure_eq!("c03.nanos_since_sign", format!("sign of nanos_since for {}", what), ws, since[8]);
        // the provided methods of Ord (max, min, clamp) and the comparison of references follow
        // the same order: each returns the operand that cmp designates
        {
            let r = catch(|| {
                let a = if late { mk_dt_off_late(ia, c.oa) } else { mk_dt_off(ia, c.oa) };
                let b = if late { mk_dt_off_late(ib, c.ob) } else { mk_dt_off(ib, c.ob) };
                let (lo, hi) = if ia <= ib { (a.clone(), b.clone()) } else { (b.clone(), a.clone()) };
                (
                    rd_dt(&a.clone().max(b.clone())),
                    rd_dt(&a.clone().min(b.clone())),
                    rd_dt(&std::cmp::max(b.clone(), a.clone())),
                    rd_dt(&std::cmp::min(b.clone(), a.clone())),
                    rd_dt(&a.clone().clamp(lo.clone(), hi.clone())),
                    rd_dt(&b.clone().clamp(lo.clone(), lo.clone())),
                    rd_dt(std::cmp::max(&a, &b)),
                    (&a).cmp(&&b),
                    [a.clone(), b.clone()].iter().max().map(rd_dt),
                    { let mut v = vec![a.clone(), b.clone(), a.clone()]; v.sort(); (rd_dt(&v[0]), rd_dt(&v[2])) },
                )
            });
            match r {
                Err(p) => return fail("c03.order_panic", "max / min / clamp / sort return", p.short()),
                Ok((mx, mn, mx2, mn2, cl, cl2, mxr, cmpr, itmax, sorted)) => {
                    let (wmax, wmin) = (ia.max(ib), ia.min(ib));
                    ensure_eq!(
                        "c03.ord_provided_methods",
                        format!("(a.max(b), a.min(b), max(b, a), min(b, a), a.clamp(lo, hi), b.clamp(lo, lo), max(&a, &b), iter().max(), sort) of {}", what),
                        (wmax, wmin, wmax, wmin, ia, wmin, wmax, Some(wmax), (wmin, wmax)),
                        (mx, mn, mx2, mn2, cl, cl2, mxr, itmax, sorted)
                    );
                    ensure_eq!("c03.cmp", format!("cmp of references of {}", what), want, cmpr);
                }
            }
            let r = catch(|| {
                let (da, db) = (mk_date(c.a.day), mk_date(c.b.day));
                let (ta, tb) = (mk_time(c.a.ns as u64), mk_time(c.b.ns as u64));
                (rd_date(&da.clone().max(db.clone())), rd_date(&da.clone().min(db.clone())), ta.clone().max(tb.clone()).as_nanos(), ta.clone().min(tb.clone()).as_nanos())
            });
            match r {
                Err(p) => return fail("c03.order_panic", "Date / Time max / min return", p.short()),
                Ok(got) => {
                    ensure_eq!(
                        "c03.ord_provided_methods",
                        format!("(max, min) of Date days {} {} and of Time {} {}", c.a.day, c.b.day, c.a.ns, c.b.ns),
                        (c.a.day.max(c.b.day), c.a.day.min(c.b.day), c.a.ns.max(c.b.ns) as u64, c.a.ns.min(c.b.ns) as u64),
                        got
                    );
                }
            }
        }
        // an operand that is the result of a mutator (clear_until_* in its own zone) is a value like
        // any other: ordered by its instant, equal to a freshly built value of the same instant
        if !edge {
            let until = 3 + ((c.a.ns as u64 ^ c.b.day as u64 ^ (c.oa as u64)) % 6) as usize;
            let unit: i128 = [tl::DAY_NS, 3_600 * tl::NS, 60 * tl::NS, tl::NS, 1_000_000, 1_000][until - 3];
            let la = ia + c.oa as i128 * tl::NS;
            let wl = la.div_euclid(unit) * unit;
            let wa = wl - c.oa as i128 * tl::NS;
            let wday = wa.div_euclid(tl::DAY_NS) as i64;
            if tl::representable(la) && tl::representable(wl) && wday > cal::MIN_DAY + 3 && wday < cal::MAX_DAY - 3 {
                let r = catch(|| {
                    let a = mk_dt_off(ia, c.oa);
                    let a2 = match until {
                        3 => a.clear_until_hour(),
                        4 => a.clear_until_minute(),
                        5 => a.clear_until_second(),
                        6 => a.clear_until_milli(),
                        7 => a.clear_until_micro(),
                        _ => a.clear_until_nano(),
                    };
                    let b = mk_dt_off(ib, c.ob);
                    let fresh = mk_dt_off(wa, c.ob);
                    (rd_dt(&a2), a2.cmp(&b), b.cmp(&a2), a2 == fresh, fresh == a2, a2.cmp(&fresh), a2 <= fresh, a2 >= fresh, a2 < fresh, a2 > fresh, sgn(a2.nanos_since(&b)))
                });
                match r {
                    Err(p) => return fail("c03.order_panic", "comparisons of a clear_until_* result return", p.short()),
                    Ok((got, cmp, rcmp, eq, eq2, cmpf, le, ge, lt, gt, sn)) => {
                        if got == wa {
                            cx.nt("operand_is_the_result_of_clear_until");
                            if wa.rem_euclid(tl::DAY_NS) == 0 && c.oa != 0 {
                                cx.nt("cleared_operand_on_utc_midnight_in_another_zone");
                            }
                            let what2 = format!("[{} [{}]].clear_until(#{}) = {} vs {} [{}]", fmt_instant(ia), c.oa, until, fmt_instant(wa), fmt_instant(ib), c.ob);
                            let w2 = wa.cmp(&ib);
                            ensure_eq!("c03.cmp_of_mutator_result", format!("cmp of {}", what2), (w2, w2.reverse()), (cmp, rcmp));
                            ensure_eq!(
                                "c03.mutator_result_vs_fresh_value",
                                format!("(==, ==, cmp, <=, >=, <, >) of {} against a freshly built value of the same instant", what2),
                                (true, true, Ordering::Equal, true, true, false, false),
                                (eq, eq2, cmpf, le, ge, lt, gt)
                            );
                            let ws2 = match w2 {
                                Ordering::Less => -1,
                                Ordering::Equal => 0,
                                Ordering::Greater => 1,
                            };
                            ensure_eq!("c03.nanos_since_sign", format!("sign of nanos_since for {}", what2), ws2, sn);
                        } else {
                            cx.label("clear_until_result_differs_from_the_model(left_to_C09)");
                        }
                    }
                }
            }
        }
        // Date order = day order
        let r = catch(|| {
            let da = mk_date(c.a.day);
            let db = mk_date(c.b.day);
            (da.cmp(&db), da == db, da < db, sgn(da.days_since(&db)), sgn(da.months_since(&db)), sgn(da.years_since(&db)))
        });
        match r {
            Err(p) => return fail("c03.date_order_panic", "Date comparisons return", p.short()),
            Ok((cmp, eq, lt, ds, ms, ys)) => {
                let wd = c.a.day.cmp(&c.b.day);
                ensure_eq!("c03.date_cmp", format!("Date cmp of days {} {}", c.a.day, c.b.day), wd, cmp);
                ensure_eq!("c03.date_eq", "Date ==", wd == Ordering::Equal, eq);
                ensure_eq!("c03.date_lt", "Date <", wd == Ordering::Less, lt);
                let wds = match wd {
                    Ordering::Less => -1,
                    Ordering::Equal => 0,
                    Ordering::Greater => 1,
                };
                ensure_eq!("c03.date_days_since_sign", "sign of Date::days_since", wds, ds);
                for (n, s) in [("months", ms), ("years", ys)] {
                    if s != 0 && s != wds {
                        return fail("c03.since_sign_contradicts_order", format!("sign of Date {}_since in {{0,{}}} for days {} vs {}", n, wds, c.a.day, c.b.day), format!("{}", s));
                    }
                }
            }
        }
        // Time order / equality = order of as_nanos
        let r = catch(|| {
            let ta = mk_time(c.a.ns as u64).set_offset(Offset::Fixed(c.oa));
            let tb = mk_time(c.b.ns as u64).set_offset(Offset::Fixed(c.ob));
            let since = [
                sgn(ta.hours_since(&tb)),
                sgn(ta.minutes_since(&tb)),
                sgn(ta.seconds_since(&tb)),
                sgn(ta.millis_since(&tb)),
                sgn(ta.micros_since(&tb)),
                sgn(ta.nanos_since(&tb)),
            ];
            (ta.cmp(&tb), ta == tb, ta < tb, ta.as_nanos(), tb.as_nanos(), since)
        });
        match r {
            Err(p) => return fail("c03.time_order_panic", "Time comparisons return", p.short()),
            Ok((cmp, eq, lt, na, nb, since)) => {
                ensure_eq!("c03.time_as_nanos", "Time::as_nanos", (c.a.ns as u64, c.b.ns as u64), (na, nb));
                let wt = c.a.ns.cmp(&c.b.ns);
                ensure_eq!("c03.time_cmp", format!("Time cmp of {} {}", c.a.ns, c.b.ns), wt, cmp);
                ensure_eq!("c03.time_eq", "Time ==", wt == Ordering::Equal, eq);
                ensure_eq!("c03.time_lt", "Time <", wt == Ordering::Less, lt);
                let wts = match wt {
                    Ordering::Less => -1,
                    Ordering::Equal => 0,
                    Ordering::Greater => 1,
                };
                for (i, s) in since.iter().enumerate() {
                    if *s != 0 && *s != wts {
                        return fail("c03.since_sign_contradicts_order", format!("sign of Time since[{}] in {{0,{}}}", i, wts), format!("{}", s));
                    }
                }
            }
        }
        Verdict::Pass
    }
}

#[derive(Debug, Clone, Hash, Serialize, Deserialize)]
pub struct AnchorCase {
    pub k: u8,
}

/// fixed anchors: 1970-01-01T00:00:00Z is timestamp 0
pub struct Anchors;
impl Prop for Anchors {
    type Case = AnchorCase;
    const NAME: &'static str = "C03.anchors";
    fn gen(u: &mut Unstructured<'_>) -> arbitrary::Result<AnchorCase> {
        Ok(AnchorCase { k: u.below(2)? as u8 })
    }
    fn check(_c: &AnchorCase, cx: &mut Cx) -> Verdict {
        cx.nt("epoch_anchor");
        let r = catch(|| {
            (
                DateTime::from_ymdhms(1970, 1, 1, 0, 0, 0).map(|v| v.timestamp()),
                Date::from_ymd(1970, 1, 1).map(|v| v.timestamp()),
                DateTime::from_timestamp(0).as_ymdhms(),
                Date::from_timestamp(0).as_ymd(),
                DateTime::from_ymdhms(1, 1, 1, 0, 0, 0).map(|v| v.timestamp()),
                Time::from_hms(0, 0, 0).map(|t| t.as_nanos()),
            )
        });
        match r {
            Err(p) => fail("c03.anchor_panic", "anchors evaluate", p.short()),
            Ok(v) => {
                ensure_eq!(
                    "c03.epoch_anchor",
                    "epoch anchors",
                    (Ok(0), Ok(0), (1970, 1, 1, 0, 0, 0), (1970, 1, 1), Ok(-tl::EPOCH_1970_S), Ok(0u64)),
                    v
                );
                Verdict::Pass
            }
        }
    }
}

pub fn run(env: &mut Env) {
    env.run_list::<Anchors>(vec![AnchorCase { k: 0 }, AnchorCase { k: 1 }]);
    // seed independent: every timestamp within +-3 days of both range ends and of 0
    env.run_enum::<Timestamp, _>(6, |c| {
        let centre = [MIN_TS, MAX_TS, 0, -tl::EPOCH_1970_S, MIN_TS, MAX_TS][c as usize];
        let step = if c < 4 { 1 } else { 3_599 };
        let span: i64 = if c < 4 { 3_000 } else { 400 * 86_400 };
        ((-span / step)..=(span / step)).map(move |k| TsCase { ts: centre.saturating_add(k * step) })
    });
    let t = env.thorough();
    env.run_random::<Timestamp>(if t { 20_000_000 } else { 3_000_000 });
    env.run_random::<Order>(if t { 20_000_000 } else { 3_000_000 });
}
