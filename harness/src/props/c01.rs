//! C01 — day number <-> proleptic Gregorian date is a validated bijection.
use crate::engine::*;
use crate::model::cal;
use crate::obs::*;
use crate::{ensure_eq, gen};
use arbitrary::Unstructured;
use astrolabe::errors::AstrolabeError;
use astrolabe::{Date, DateTime, DateUtilities, TimeUtilities};
use serde::{Deserialize, Serialize};

#[derive(Debug, Clone, Hash, Serialize, Deserialize)]
pub struct DayCase {
    pub day: i64,
}

pub fn day_nontrivial(day: i64, cx: &mut Cx) {
    let (y, m, d) = cal::ymd_from_days(day);
    if day < 0 {
        cx.nt("bc");
    }
    if (m == 12 && d >= 30) || (m == 1 && d <= 2) {
        cx.nt("year_boundary");
    }
    if m == 2 && d >= 27 || m == 3 && d <= 2 {
        cx.nt("leap_day_zone");
        if cal::is_leap(y) {
            cx.label("leap_year");
        }
    }
    let a = cal::astro_from_display(y);
    if a.rem_euclid(100) == 0 || a.rem_euclid(100) == 99 || a.rem_euclid(100) == 1 {
        cx.label("century_zone");
    }
    if day - cal::MIN_DAY < 3 || cal::MAX_DAY - day < 3 {
        cx.nt("range_end");
    }
    if (-2..=2).contains(&day) {
        cx.nt("era_boundary");
    }
}

pub struct Days;
impl Prop for Days {
    type Case = DayCase;
    const NAME: &'static str = "C01.days";
    const BYTES: usize = 24;
    fn gen(u: &mut Unstructured<'_>) -> arbitrary::Result<DayCase> {
        Ok(DayCase { day: gen::day(u)? })
    }
    fn check(c: &DayCase, cx: &mut Cx) -> Verdict {
        let day = c.day;
        if !(cal::MIN_DAY..=cal::MAX_DAY).contains(&day) {
            return Verdict::Skip("day outside i32");
        }
        day_nontrivial(day, cx);
        let want = cal::ymd_from_days(day);
        // Date
        let date = match catch(|| mk_date(day)) {
            Ok(d) => d,
            Err(p) => return fail("c01.from_timestamp_panic", "Date::from_timestamp in range returns", p.short()),
        };
        let got = match catch(|| date.as_ymd()) {
            Ok(g) => g,
            Err(p) => return fail("c01.as_ymd_panic", "as_ymd returns", p.short()),
        };
        let got64 = (got.0 as i64, got.1, got.2);
        ensure_eq!("c01.as_ymd_wrong", format!("Date day {} as_ymd", day), want, got64);
        if !cal::exists(got64.0, got64.1, got64.2) {
            return fail("c01.as_ymd_invalid", "a valid Gregorian date", format!("{:?}", got));
        }
        ensure_eq!("c01.getters", "year()/month()/day()", got, (date.year(), date.month(), date.day()));
        // DateTime
        let dt = match catch(|| DateTime::from_timestamp((day - cal::DAYS_TO_1970) * 86_400)) {
            Ok(d) => d,
            Err(p) => return fail("c01.from_timestamp_panic", "DateTime::from_timestamp in range returns", p.short()),
        };
        ensure_eq!("c01.as_ymd_wrong", format!("DateTime day {} as_ymd", day), got, dt.as_ymd());
        // round trip through from_ymd
        match catch(|| Date::from_ymd(got.0, got.1, got.2)) {
            Ok(Ok(back)) => {
                ensure_eq!("c01.from_ymd_roundtrip", format!("from_ymd{:?} day number", got), day, rd_date(&back));
            }
            Ok(Err(e)) => return fail("c01.from_ymd_rejects_valid", format!("from_ymd{:?} is Ok", got), format!("Err({})", e)),
            Err(p) => return fail("c01.from_ymd_panic", format!("from_ymd{:?} is Ok", got), p.short()),
        }
        match catch(|| DateTime::from_ymd(got.0, got.1, got.2)) {
            Ok(Ok(back)) => {
                ensure_eq!(
                    "c01.from_ymd_roundtrip",
                    format!("DateTime::from_ymd{:?} timestamp", got),
                    (day - cal::DAYS_TO_1970) * 86_400,
                    back.timestamp()
                );
            }
            Ok(Err(e)) => return fail("c01.from_ymd_rejects_valid", format!("DateTime::from_ymd{:?} is Ok", got), format!("Err({})", e)),
            Err(p) => return fail("c01.from_ymd_panic", "DateTime::from_ymd is Ok", p.short()),
        }
        // consecutive days are consecutive dates (formulation B of the model)
        if day < cal::MAX_DAY {
            let next = mk_date(day + 1).as_ymd();
            let want_next = cal::next_date(want);
            ensure_eq!(
                "c01.not_consecutive",
                format!("date after {:?}", want),
                want_next,
                (next.0 as i64, next.1, next.2)
            );
            // and the day itself reads the same after its neighbour was read (no hidden state)
            let again = mk_date(day).as_ymd();
            ensure_eq!("c01.depends_on_previous_call", format!("as_ymd of day {} after reading day {}", day, day + 1), want, (again.0 as i64, again.1, again.2));
        }
        if day > cal::MIN_DAY + 400 && (day as u64 ^ (day as u64 >> 9)) % 4 == 0 {
            let delta = [1i64, 30, 365, 366][(day as u64 / 4 % 4) as usize];
            let _ = mk_date(day - delta).as_ymd();
            let again = mk_date(day).as_ymd();
            ensure_eq!("c01.depends_on_previous_call", format!("as_ymd of day {} after reading day {}", day, day - delta), want, (again.0 as i64, again.1, again.2));
            let back = Date::from_ymd(again.0, again.1, again.2).map(|d| rd_date(&d));
            ensure_eq!("c01.depends_on_previous_call", format!("from_ymd{:?} after reading day {}", again, day - delta), Ok(day), back.map_err(|e| e.to_string()));
        }
        Verdict::Pass
    }
}

#[derive(Debug, Clone, Hash, Serialize, Deserialize)]
pub struct TripleCase {
    pub y: i32,
    pub m: u32,
    pub d: u32,
}

fn classify_triple(y: i64, m: u32, d: u32, cx: &mut Cx) {
    let valid = cal::valid_in_range(y, m, d);
    if valid {
        cx.label("valid");
        if y < 0 {
            cx.nt("valid_bc");
        }
        if m == 2 && d >= 28 {
            cx.nt("valid_feb_end");
        }
        if (m == 12 && d == 31) || (m == 1 && d == 1) {
            cx.nt("valid_year_edge");
        }
        if (y, m, d) == cal::MIN_YMD || (y, m, d) == cal::MAX_YMD {
            cx.nt("valid_range_end");
        }
    } else {
        cx.label("invalid");
        if y == 0 {
            cx.nt("year0");
        }
        if y != 0 && (1..=12).contains(&m) && (d == 0 || d == cal::month_len(y, m) + 1) {
            cx.nt("day_one_off");
        }
        if m == 0 || m == 13 {
            cx.nt("month_one_off");
        }
        if cal::exists(y, m, d) {
            // exists but outside the representable range
            cx.nt("outside_range");
        }
    }
}

pub struct Triples;
impl Prop for Triples {
    type Case = TripleCase;
    const NAME: &'static str = "C01.triples";
    const BYTES: usize = 32;
    fn gen(u: &mut Unstructured<'_>) -> arbitrary::Result<TripleCase> {
        let k = u.below(8)?;
        let y = match k {
            0 => *u.choose(&[0i64, -5_879_612, 5_879_612, -5_879_611, 5_879_611])?,
            _ => gen::year(u)?,
        };
        let (m, d) = if (y == cal::MIN_YMD.0 || y == cal::MAX_YMD.0) && u.coin(1, 2)? {
            let e = if y < 0 { cal::MIN_YMD } else { cal::MAX_YMD };
            ((e.1 as i64 + u.range_i64(-1, 1)?) as u32, (e.2 as i64 + u.range_i64(-1, 1)?) as u32)
        } else {
            (u.below(14)? as u32, u.below(33)? as u32)
        };
        Ok(TripleCase { y: y as i32, m, d })
    }
    fn check(c: &TripleCase, cx: &mut Cx) -> Verdict {
        let (y, m, d) = (c.y as i64, c.m, c.d);
        classify_triple(y, m, d, cx);
        let valid = cal::valid_in_range(y, m, d);
        // (a constructed date is also read back: construction and read-back are two directions of
        // one bijection, and what the one leaves behind must not steer the other)
        let r1 = catch(|| {
            Date::from_ymd(c.y, m, d).map(|v| {
                let back = v.as_ymd();
                if back != (c.y, m, d) {
                    panic!("Date::from_ymd({}, {}, {}) reads back as {:?}", c.y, m, d, back);
                }
                rd_date(&v)
            })
        });
        let r2 = catch(|| DateTime::from_ymd(c.y, m, d).map(|v| (v.timestamp(), v.as_hms(), v.nano())));
        let want_day = if valid { Some(cal::days_from_ymd(y, m, d)) } else { None };
        for (api, r) in [
            ("Date", r1.clone()),
            ("DateTime", r2.clone().map(|r| r.map(|(ts, _, _)| ts.div_euclid(86_400) + cal::DAYS_TO_1970))),
        ] {
            match r {
                Err(p) => return fail("c01.from_ymd_panic", format!("{}::from_ymd({},{},{}) returns a Result", api, y, m, d), p.short()),
                Ok(Ok(day)) => match want_day {
                    None => {
                        return fail(
                            "c01.from_ymd_accepts_invalid",
                            format!("{}::from_ymd({},{},{}) = Err(OutOfRange)", api, y, m, d),
                            format!("Ok({})", fmt_day(day)),
                        )
                    }
                    Some(w) => {
                        if w != day {
                            let sig = if y < 0 && cal::is_leap(y) && (w - day).abs() == 1 {
                                "c01.from_ymd_bc_leap_year"
                            } else {
                                "c01.from_ymd_wrong_day"
                            };
                            return fail(sig, format!("{}::from_ymd({},{},{}) = day {}", api, y, m, d, w), fmt_day(day));
                        }
                    }
                },
                Ok(Err(e)) => {
                    if valid {
                        return fail("c01.from_ymd_rejects_valid", format!("{}::from_ymd({},{},{}) is Ok", api, y, m, d), format!("Err({})", e));
                    }
                    if !matches!(e, AstrolabeError::OutOfRange(_)) {
                        return fail("c01.from_ymd_wrong_error", "Err(OutOfRange)", format!("{:?}", e));
                    }
                }
            }
        }
        if let Ok(Ok((_, hms, nano))) = r2 {
            ensure_eq!("c01.from_ymd_time_nonzero", "DateTime::from_ymd time of day", ((0, 0, 0), 0), (hms, nano));
        }
        // a refused call leaves nothing behind: values that existed before it read as before, and
        // the valid constructions around it (same year and a month used just before in the
        // neighbouring year; the day the refused triple would "overflow" to) come out right
        if !valid && (cal::MIN_YMD.0 + 2..=cal::MAX_YMD.0 - 2).contains(&y) {
            let h = (y as u64).wrapping_mul(0x9E37_79B9_7F4A_7C15) ^ ((m as u64) << 7) ^ d as u64;
            let mm = 1 + ((h >> 20) % 12) as u32;
            let dd = 1 + ((h >> 30) % 28) as u32;
            let step = |yy: i64, by: i64| {
                let a = cal::astro_from_display(if yy == 0 { 1 } else { yy }) + by;
                cal::display_from_astro(a)
            };
            let y_other = step(y, if (h >> 40) & 1 == 0 { -1 } else { 1 });
            let y_here = if y == 0 { 1 } else { y };
            let over: Option<i64> = if (1..=12).contains(&m) && y != 0 && d <= 40 {
                Some(cal::days_from_ymd(y, m, 1) + d as i64 - 1)
            } else if m == 0 && d <= 40 {
                Some(cal::days_from_ymd(step(y, -1), 12, 1) + d.max(1) as i64 - 1)
            } else if m == 13 && d <= 40 {
                Some(cal::days_from_ymd(step(y, 1), 1, 1) + d.max(1) as i64 - 1)
            } else {
                None
            };
            let use_dt = (h >> 41) & 1 == 1;
            let r = catch(|| {
                let before = Date::from_ymd(y_other as i32, mm, dd).map(|v| rd_date(&v));
                let held = over.map(|o| (Date::from_timestamp((o - cal::DAYS_TO_1970) * 86_400), DateTime::from_timestamp((o - cal::DAYS_TO_1970) * 86_400 + 1)));
                let refused = if use_dt { DateTime::from_ymd(c.y, m, d).is_err() } else { Date::from_ymd(c.y, m, d).is_err() };
                let held_read = held.map(|(a, b)| (a.as_ymd(), b.as_ymd(), (a.year(), a.month(), a.day()), format!("{}", a.format("yyyy-MM-dd"))));
                let after = Date::from_ymd(y_here as i32, mm, dd).map(|v| (rd_date(&v), v.as_ymd()));
                let after_dt = DateTime::from_ymd(y_here as i32, mm, dd).map(|v| (v.timestamp().div_euclid(86_400) + cal::DAYS_TO_1970, v.as_ymd()));
                (before, refused, held_read, after, after_dt)
            });
            match r {
                Err(p) => return fail("c01.from_ymd_panic", format!("constructions around the refused from_ymd({},{},{}) return", y, m, d), p.short()),
                Ok((before, refused, held_read, after, after_dt)) => {
                    cx.nt("valid_constructions_and_reads_around_a_refused_call");
                    let what = format!(
                        "from_ymd({},{},{}) [Ok], {}::from_ymd({},{},{}) [refused], then",
                        y_other, mm, dd, if use_dt { "DateTime" } else { "Date" }, y, m, d
                    );
                    ensure_eq!("c01.refused_call_leaves_a_trace", format!("{} (the second call is refused)", what), true, refused);
                    ensure_eq!("c01.from_ymd_wrong_day", format!("Date::from_ymd({},{},{})", y_other, mm, dd), Some(cal::days_from_ymd(y_other, mm, dd)), before.ok());
                    let wd = cal::days_from_ymd(y_here, mm, dd);
                    let wt = (y_here as i32, mm, dd);
                    ensure_eq!("c01.refused_call_leaves_a_trace", format!("{} Date::from_ymd({},{},{}) = (day, as_ymd)", what, y_here, mm, dd), Some((wd, wt)), after.ok());
                    ensure_eq!("c01.refused_call_leaves_a_trace", format!("{} DateTime::from_ymd({},{},{}) = (day, as_ymd)", what, y_here, mm, dd), Some((wd, wt)), after_dt.ok());
                    if let (Some(o), Some((a, b, g, text))) = (over, held_read) {
                        let w = cal::ymd_from_days(o);
                        let wt = (w.0 as i32, w.1, w.2);
                        let wtext = format!("{}-{:02}-{:02}", if w.0 < 0 { format!("-{:04}", -w.0) } else { format!("{:04}", w.0) }, w.1, w.2);
                        ensure_eq!(
                            "c01.refused_call_leaves_a_trace",
                            format!("{} a value of day {} that existed before the refused call reads (Date.as_ymd, DateTime.as_ymd, getters, format)", what, fmt_day(o)),
                            (wt, wt, wt, wtext),
                            (a, b, g, text)
                        );
                    }
                }
            }
        }
        Verdict::Pass
    }
}

/// fast inline check for one day (used by the complete enumerations): true = fine
#[inline]
fn fast_day_ok(day: i64, want: (i64, u32, u32)) -> bool {
    let date = Date::from_timestamp((day - cal::DAYS_TO_1970) * 86_400);
    let got = date.as_ymd();
    if (got.0 as i64, got.1, got.2) != want {
        return false;
    }
    match Date::from_ymd(got.0, got.1, got.2) {
        Ok(b) => b.timestamp() == (day - cal::DAYS_TO_1970) * 86_400,
        Err(_) => false,
    }
}

fn days_window(env: &mut Env, lo: i64, hi: i64) {
    // [lo, hi] split into chunks of 2^16 days; each chunk walks the successor chain (B)
    // and compares with the closed form (A) at the chunk ends.
    const CH: i64 = 1 << 16;
    let n_chunks = ((hi - lo) / CH + 1) as u64;
    env.run_fast::<Days>(n_chunks, move |c, fs| {
        let start = lo + c as i64 * CH;
        let end = (start + CH - 1).min(hi);
        let mut cur = cal::ymd_from_days(start);
        let mut bad = Vec::new();
        for day in start..=end {
            fs.evaluations += 1;
            let (y, m, d) = cur;
            if day < 0 || (m == 12 && d >= 30) || (m == 1 && d <= 2) || (m == 2 && d >= 27) || (m == 3 && d <= 2) {
                fs.nontrivial += 1;
            }
            let _ = y;
            let ok = catch(|| fast_day_ok(day, cur)).unwrap_or(false);
            if !ok && bad.len() < 64 {
                bad.push(DayCase { day });
            }
            if day < end {
                cur = cal::next_date(cur);
            }
        }
        if cal::ymd_from_days(end) != cur {
            // model formulations disagree: report through a case that cannot pass
            bad.push(DayCase { day: i64::MAX });
        }
        bad
    });
}

fn triples_years(env: &mut Env, years: std::sync::Arc<Vec<i64>>) {
    const CH: usize = 64;
    let n_chunks = ((years.len() + CH - 1) / CH) as u64;
    env.run_fast::<Triples>(n_chunks, move |c, fs| {
        let mut bad = Vec::new();
        let lo = c as usize * CH;
        let hi = (lo + CH).min(years.len());
        for &y in &years[lo..hi] {
            let leap = y != 0 && cal::is_leap(y);
            for m in 0..=13u32 {
                let ml = if y == 0 { 0 } else { cal::month_len(y, m) };
                for d in 0..=32u32 {
                    fs.evaluations += 1;
                    let mut valid = y != 0 && d >= 1 && d <= ml;
                    if valid && (y <= cal::MIN_YMD.0 || y >= cal::MAX_YMD.0) {
                        valid = cal::valid_in_range(y, m, d);
                    }
                    if (valid && (y < 0 || (m == 2 && d >= 28))) || (!valid && (y == 0 || d == ml + 1 || d == 0 || m == 0 || m == 13)) {
                        fs.nontrivial += 1;
                    }
                    let _ = leap;
                    let ok = catch(|| {
                        let r1 = Date::from_ymd(y as i32, m, d);
                        let r2 = DateTime::from_ymd(y as i32, m, d);
                        if valid {
                            let w = cal::days_from_ymd(y, m, d);
                            let ts = (w - cal::DAYS_TO_1970) * 86_400;
                            matches!(r1, Ok(v) if v.timestamp() == ts) && matches!(r2, Ok(v) if v.timestamp() == ts && v.nano() == 0)
                        } else {
                            matches!(r1, Err(AstrolabeError::OutOfRange(_))) && matches!(r2, Err(AstrolabeError::OutOfRange(_)))
                        }
                    })
                    .unwrap_or(false);
                    if !ok && bad.len() < 64 {
                        bad.push(TripleCase { y: y as i32, m, d });
                    }
                }
            }
        }
        bad
    });
}

/// every `stride`-th day of the whole range (phase from the seed): a defect confined to a band of
/// `stride` or more consecutive days anywhere in the range is met, not only near the boundaries
#[allow(dead_code)]
fn days_stride(env: &mut Env, stride: i64) {
    let phase = (env.seed % stride as u64) as i64;
    const CH: i64 = 1 << 16;
    let total = (cal::MAX_DAY - cal::MIN_DAY) / stride;
    let n_chunks = (total / CH + 1) as u64;
    env.run_fast::<Days>(n_chunks, move |c, fs| {
        let mut bad = Vec::new();
        for k in 0..CH {
            let day = cal::MIN_DAY + phase + (c as i64 * CH + k) * stride;
            if day > cal::MAX_DAY {
                break;
            }
            fs.evaluations += 1;
            let cur = cal::ymd_from_days(day);
            let ok = catch(|| fast_day_ok(day, cur)).unwrap_or(false);
            if !ok && bad.len() < 64 {
                bad.push(DayCase { day });
            }
        }
        bad
    });
}

/// probe dates in every one of the 11.76 M years: first / middle / last day of every month, the end
/// of February and one step outside - a defect confined to (part of) one year is met
fn triples_every_year(env: &mut Env) {
    const CH: i64 = 4096;
    let (ylo, yhi) = (-5_879_612i64, 5_879_612i64);
    let n_chunks = ((yhi - ylo) / CH + 1) as u64;
    env.run_fast::<Triples>(n_chunks, move |c, fs| {
        let mut bad = Vec::new();
        for y in (ylo + c as i64 * CH)..=(ylo + c as i64 * CH + CH - 1).min(yhi) {
            for m in 1..=12u32 {
                let ml = if y == 0 { 0 } else { cal::month_len(y, m) };
                let ds: [u32; 4] = if m == 2 { [1, 28, 29, 30] } else { [1, 15, ml, ml + 1] };
                for d in ds {
                    fs.evaluations += 1;
                    let mut valid = y != 0 && d >= 1 && d <= ml;
                    if valid && (y <= cal::MIN_YMD.0 || y >= cal::MAX_YMD.0) {
                        valid = cal::valid_in_range(y, m, d);
                    }
                    let ok = catch(|| {
                        let r1 = Date::from_ymd(y as i32, m, d);
                        if valid {
                            let ts = (cal::days_from_ymd(y, m, d) - cal::DAYS_TO_1970) * 86_400;
                            matches!(r1, Ok(v) if v.timestamp() == ts)
                        } else {
                            matches!(r1, Err(AstrolabeError::OutOfRange(_)))
                        }
                    })
                    .unwrap_or(false);
                    if !ok && bad.len() < 64 {
                        bad.push(TripleCase { y: y as i32, m, d });
                    }
                }
            }
        }
        bad
    });
}

fn boundary_years() -> Vec<i64> {
    let mut ys: Vec<i64> = Vec::new();
    ys.extend(-5_879_612..=-5_879_600);
    ys.extend(5_879_600..=5_879_612);
    ys.extend(-1300..=1300);
    ys.extend(1500..=2500);
    ys.extend(9990..=10_010);
    ys.extend(-10_010..=-9_990);
    for k in -40i64..=40 {
        for base in [400i64, 100_000, 1_000_000] {
            for dlt in -2..=2 {
                ys.push(k * base + dlt);
            }
        }
    }
    ys.retain(|y| (-5_879_612..=5_879_612).contains(y));
    ys.sort();
    ys.dedup();
    ys
}

pub fn run(env: &mut Env) {
    if env.thorough() {
        days_window(env, cal::MIN_DAY, cal::MAX_DAY);
        env.exhaustive_parts.push("C01.days: all 2^32 day numbers".into());
        let all: Vec<i64> = (-5_879_612..=5_879_612).collect();
        triples_years(env, std::sync::Arc::new(all));
        env.exhaustive_parts.push("C01.triples: all years -5879612..=5879612 x month 0..=13 x day 0..=32".into());
        env.run_random::<Days>(200_000);
        env.run_random::<Triples>(200_000);
    } else {
        // boundary windows, complete inside each window
        for (lo, hi) in [
            (cal::MIN_DAY, cal::MIN_DAY + 400_000),
            (cal::MAX_DAY - 400_000, cal::MAX_DAY),
            (-4 * gen::CYCLE, 4 * gen::CYCLE),
            (cal::DAYS_TO_1970 - gen::CYCLE, cal::DAYS_TO_1970 + gen::CYCLE),
            (-146_097 * 9_000 - 200_000, -146_097 * 9_000 + 200_000),
            (146_097 * 11_111 - 200_000, 146_097 * 11_111 + 200_000),
        ] {
            days_window(env, lo, hi);
        }
        triples_years(env, std::sync::Arc::new(boundary_years()));
        // the whole domain: every day number, and 48 probe dates in every year
        days_window(env, cal::MIN_DAY, cal::MAX_DAY);
        env.exhaustive_parts.push("C01.days: all 2^32 day numbers".into());
        triples_every_year(env);
        env.exhaustive_parts.push("C01 (quick): all 2^32 day numbers and 48 probe dates (first / 15th / last / last+1 of every month, 28-30 February) in every year -5879612..=5879612".into());
        env.run_random::<Days>(1_000_000);
        env.run_random::<Triples>(1_500_000);
    }
}
