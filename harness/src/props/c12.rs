//! C12 — parsing with the pattern that produced a string recovers the value.
use crate::engine::*;
use crate::gen::Inst;
use crate::model::fmt::{self, Kind, Tok};
use crate::model::{cal, tl};
use crate::obs::*;
use crate::props::c11::{case_ok, format_value, gen_value, Case};
use arbitrary::Unstructured;
use astrolabe::{Date, DateTime, Offset, OffsetUtilities, Time};

/// variable-width text: must be followed by the end or a non-digit
fn is_var(sym: char, width: usize) -> bool {
    match sym {
        'y' => matches!(width, 1 | 3 | 4),
        'M' | 'w' | 'd' | 'h' | 'H' | 'K' | 'k' | 'm' | 's' => width == 1,
        'D' => width != 3,
        'x' | 'X' => width == 1 || width == 4,
        _ => false,
    }
}

fn sep(u: &mut Unstructured, first_not_digit: bool, not_colon: bool) -> arbitrary::Result<Tok> {
    const FIRST: &[char] = &[' ', '-', '/', ':', '.', ',', '_', 'T', ' ', '-', ':', 'é', '日'];
    const REST: &[char] = &[' ', '-', '/', ':', '.', 'T', '0', '7'];
    // after a width-5 zone a ':' is only ambiguous when a digit follows it
    if not_colon && u.coin(1, 3)? {
        return Ok(Tok::Lit(format!(":{}", u.choose(&[" ", "-", "T", "é", ":", "", "/"])?)));
    }
    loop {
        let k = u.below(8)?;
        let tok = match k {
            0 => Tok::Quoted({
                let mut s = String::new();
                let n = 1 + u.below(4)?;
                for i in 0..n {
                    let c = *u.choose(&['a', 't', 'o', ' ', 'y', 'H', '\'', 'é', ':', 'x'])?;
                    if i == 0 && (c == ':' && not_colon) {
                        s.push('a');
                    } else {
                        s.push(c);
                    }
                }
                s
            }),
            1 => Tok::Apostrophe,
            _ => {
                let mut s = String::new();
                // (one in twelve: a character that is numeric for Unicode but not an ASCII digit)
                let c = if u.coin(1, 12)? {
                    *u.choose(&['\u{b2}', '\u{b3}', '\u{bd}', '\u{2460}', '\u{2163}', '\u{663}', '\u{ff13}', '\u{967}', '\u{3007}'])?
                } else if u.coin(1, 5)? {
                    crate::props::c11::random_non_ascii(u)?
                } else {
                    *u.choose(FIRST)?
                };
                if not_colon && c == ':' {
                    continue;
                }
                s.push(c);
                if u.coin(1, 4)? {
                    s.push(*u.choose(REST)?);
                }
                Tok::Lit(s)
            }
        };
        let _ = first_not_digit; // every separator produced here starts with a non-digit
        return Ok(tok);
    }
}

/// builds a coherent, textually unambiguous pattern for `kind` and the given value
fn gen_pattern(u: &mut Unstructured, kind: Kind, v: Inst, off: i32) -> arbitrary::Result<Vec<Tok>> {
    let f = fmt::local_fields(kind, v.day, v.ns, off);
    let mut fields: Vec<Tok> = Vec::new();
    let fld = |sym: char, width: usize| Tok::Field { sym, width };
    let mut year_w2 = false;
    if kind != Kind::Time {
        // 0 none, 1 y, 2 y+M, 3 y+M+d, 4 y+D, 5 M, 6 d, 7 M+d
        let mut shape = if kind == Kind::Date { 1 + u.below(7)? } else { u.below(8)? };
        if shape == 7 && f.month == 2 && f.dom == 29 {
            shape = 3;
        }
        if shape == 0 && kind == Kind::Date {
            shape = 3;
        }
        // bias towards full dates
        if u.coin(1, 2)? {
            shape = if u.coin(1, 4)? { 4 } else { 3 };
        }
        if matches!(shape, 1..=4) {
            let mut w = *u.choose(&[1usize, 2, 3, 4, 4, 4, 5, 6, 7, 8])?;
            if u.coin(1, 40)? {
                // wide fixed-width year fields: lengths at and around 2^k
                w = (*u.choose(&[10usize, 11, 12, 16, 19, 20, 21, 32, 33, 64, 255, 256, 257, 1024, 65_535, 65_536, 65_537])? as i64 + u.range_i64(-1, 1)?) as usize;
            }
            while w >= 5 && w < 19 && f.year.unsigned_abs() >= 10u64.pow(w as u32) {
                w += 1;
            }
            year_w2 = w == 2;
            fields.push(fld('y', w));
        }
        if matches!(shape, 2 | 3 | 5 | 7) {
            fields.push(fld('M', *u.choose(&[1usize, 2, 2, 3, 4, 6, 7])?));
        }
        if matches!(shape, 3 | 6 | 7) {
            fields.push(fld('d', *u.choose(&[1usize, 2, 2, 3, 5])?));
        }
        if shape == 4 {
            fields.push(fld('D', *u.choose(&[1usize, 2, 3, 4, 6])?));
        }
        let full_date = matches!(shape, 3 | 4) && !year_w2;
        if full_date {
            // derived fields
            if u.coin(1, 4)? {
                fields.push(fld('G', 1 + u.below(7)? as usize));
            }
            if u.coin(1, 5)? {
                fields.push(fld('q', 1 + u.below(6)? as usize));
            }
            if u.coin(1, 5)? {
                fields.push(fld('w', 1 + u.below(3)? as usize));
            }
            if u.coin(1, 4)? {
                let w = *u.choose(&[1usize, 2, 3, 4, 6, 7, 8, 9])?; // no narrow names
                fields.push(fld('e', w));
            }
        }
    }
    if kind != Kind::Date {
        // 0 none, 1 hour, 2 +minute, 3 +second, 4 +sub-second
        let mut shape = if kind == Kind::Time { 1 + u.below(4)? } else { u.below(5)? };
        if u.coin(1, 2)? {
            shape = 3 + u.below(2)?;
        }
        // one time in eight the time fields are present or absent independently of each other
        // (a period marker without an hour, minutes without hours, a fraction without seconds):
        // every field is still unambiguous in text, absent ones default to zero
        let free = u.coin(1, 8)?;
        let (has_hour, has_min, has_sec, has_sub) = if free { (u.coin(1, 2)?, u.coin(1, 2)?, u.coin(1, 2)?, u.coin(1, 3)?) } else { (shape >= 1, shape >= 2, shape >= 3, shape >= 4) };
        if free && !has_hour && u.coin(2, 3)? {
            fields.push(fld('a', 1 + u.below(6)? as usize));
        }
        if has_hour {
            let style = u.below(4)?;
            let hw = 1 + u.below(3)? as usize;
            let period_sym = if has_min && has_sec && u.coin(1, 2)? { 'b' } else { 'a' };
            let pw = 1 + u.below(6)? as usize;
            match style {
                0 => fields.push(fld('H', hw)),
                1 => fields.push(fld('k', hw)),
                2 => {
                    fields.push(fld('h', hw));
                    fields.push(fld(period_sym, pw));
                }
                _ => {
                    fields.push(fld('K', hw));
                    fields.push(fld(period_sym, pw));
                }
            }
            if style < 2 && u.coin(1, 5)? {
                // derived period next to a 24-hour clock
                fields.push(fld(period_sym, pw));
            }
            if style < 2 && u.coin(1, 6)? {
                // a derived 12-hour field next to the 24-hour clock (with or without a period): the
                // 24-hour field determines the hour
                fields.push(fld(if u.coin(1, 2)? { 'h' } else { 'K' }, 1 + u.below(3)? as usize));
            }
        }
        if has_min {
            fields.push(fld('m', 1 + u.below(3)? as usize));
        }
        if has_sec {
            fields.push(fld('s', 1 + u.below(3)? as usize));
        }
        if has_sub {
            fields.push(fld('n', 1 + u.below(6)? as usize));
        }
        // zone
        if u.coin(2, 3)? {
            let sym = if u.coin(1, 2)? { 'X' } else { 'x' };
            let mut w = 1 + u.below(6)? as usize;
            if off % 60 != 0 && !(w == 4 || w == 5) {
                w = 4 + u.below(2)? as usize;
            }
            fields.push(fld(sym, w));
        }
    }
    if fields.is_empty() {
        fields.push(match kind {
            Kind::Time => fld('H', 2),
            _ => fld('y', 4),
        });
    }
    // light shuffle: swap a few neighbours
    for _ in 0..u.below(4)? {
        if fields.len() >= 2 {
            let i = u.below(fields.len() as u64 - 1)? as usize;
            fields.swap(i, i + 1);
        }
    }
    // separators
    let mut toks: Vec<Tok> = Vec::new();
    if u.coin(1, 6)? {
        toks.push(sep(u, false, false)?);
    }
    let n = fields.len();
    for (i, fl) in fields.into_iter().enumerate() {
        let (sym, width) = match &fl {
            Tok::Field { sym, width } => (*sym, *width),
            _ => unreachable!(),
        };
        toks.push(fl);
        let last = i + 1 == n;
        let zone5 = (sym == 'x' || sym == 'X') && width == 5;
        if last {
            if u.coin(1, 6)? {
                toks.push(sep(u, true, zone5)?);
            }
        } else if is_var(sym, width) || zone5 || u.coin(3, 4)? {
            toks.push(sep(u, true, zone5)?);
            // separators made of two tokens: unquoted text followed by quoted text (which may begin
            // with the same character, e.g. a space) and the other way round
            match toks.last() {
                Some(Tok::Lit(_)) if u.coin(1, 5)? => toks.push(Tok::Quoted((*u.choose(&[" at ", " ", "at", " a", "T ", "  ", "-", " - "])?).to_string())),
                Some(Tok::Quoted(_)) if u.coin(1, 6)? => toks.push(Tok::Lit((*u.choose(&[" ", "-", "  ", ", ", "/"])?).to_string())),
                _ => {}
            }
        }
    }
    // blank and line-break text at the two edges of a pattern (the places where input is trimmed)
    if u.coin(1, 8)? {
        const EDGE: &[&str] = &["\n", "\r\n", "\r", " ", "\t", "  ", "\u{a0}", "\u{3000}", "\u{2028}", "\u{85}", " \n", "\u{b}", "\u{c}"];
        let e = (*u.choose(EDGE)?).to_string();
        let quoted = u.coin(1, 3)?;
        let mk = |nb: Option<&Tok>| match nb {
            Some(Tok::Field { .. }) | Some(Tok::Lit(_)) | None if quoted => Tok::Quoted(e.clone()),
            _ => Tok::Lit(e.clone()),
        };
        let k = u.below(3)?;
        if k != 1 {
            let t = mk(toks.first());
            toks.insert(0, t);
        }
        if k != 0 {
            let t = mk(toks.last());
            toks.push(t);
        }
    }
    Ok(toks)
}

pub fn gen_pattern_pub(u: &mut Unstructured, kind: Kind, v: Inst, off: i32) -> arbitrary::Result<Vec<Tok>> {
    gen_pattern(u, kind, v, off)
}

fn present(toks: &[Tok], sym: char) -> Option<usize> {
    toks.iter().find_map(|t| match t {
        Tok::Field { sym: s, width } if *s == sym => Some(*width),
        _ => None,
    })
}

pub struct RoundTrip;
impl Prop for RoundTrip {
    type Case = Case;
    const NAME: &'static str = "C12.roundtrip";
    const BYTES: usize = 200;
    fn gen(u: &mut Unstructured<'_>) -> arbitrary::Result<Case> {
        let kind = *u.choose(&[Kind::Date, Kind::Time, Kind::DateTime, Kind::DateTime])?;
        let (v, off) = gen_value(u, kind)?;
        let toks = gen_pattern(u, kind, v, off)?;
        Ok(Case { kind, v, off, toks })
    }
    fn check(c: &Case, cx: &mut Cx) -> Verdict {
        if crate::props::c11::toks_too_large(&c.toks) {
            return Verdict::Skip("malformed case");
        }
        if !case_ok(c) {
            return Verdict::Skip("malformed case");
        }
        let pattern = fmt::pattern_of(&c.toks);
        if fmt::tokenize(c.kind, &pattern) != c.toks {
            return Verdict::Skip("pattern does not tokenise back to its tokens");
        }
        let f = fmt::local_fields(c.kind, c.v.day, c.v.ns, c.off);
        // precondition re-derived from the tokens (so replay files are judged the same way)
        let t = &c.toks;
        let (py, pm, pd, pdd) = (present(t, 'y'), present(t, 'M'), present(t, 'd'), present(t, 'D'));
        let (ph, pk, phh, pkk) = (present(t, 'H'), present(t, 'k'), present(t, 'h'), present(t, 'K'));
        let period = present(t, 'a').or(present(t, 'b'));
        let (pmin, psec, pn) = (present(t, 'm'), present(t, 's'), present(t, 'n'));
        let zone = present(t, 'X').map(|w| ('X', w)).or(present(t, 'x').map(|w| ('x', w)));
        let mut seen = std::collections::HashSet::new();
        for tok in t {
            if let Tok::Field { sym, width } = tok {
                if !seen.insert(*sym) || (*sym == 'a' && present(t, 'b').is_some()) || (*sym == 'X' && present(t, 'x').is_some()) {
                    return Verdict::Skip("outside the unambiguous grammar: symbol repeated");
                }
                if matches!((*sym, *width), ('M', 5) | ('e', 5)) {
                    return Verdict::Skip("outside the unambiguous grammar: narrow name");
                }
                if *sym == 'y' && *width >= 5 && f.year.unsigned_abs() >= 10u64.pow((*width).min(18) as u32) {
                    return Verdict::Skip("outside the unambiguous grammar: year wider than yyyyy field");
                }
                if (*sym == 'x' || *sym == 'X') && c.off % 60 != 0 && !(*width == 4 || *width == 5) {
                    return Verdict::Skip("outside the unambiguous grammar: zone symbol too narrow for the offset");
                }
            }
        }
        // separators after variable-width fields
        for i in 0..t.len() {
            if let Tok::Field { sym, width } = &t[i] {
                let next_char = t.get(i + 1).and_then(|n| match n {
                    Tok::Field { sym: s2, width: w2 } => fmt::render(&[Tok::Field { sym: *s2, width: *w2 }], &f, c.off).ok().and_then(|s| s.chars().next()),
                    Tok::Lit(l) => l.chars().next(),
                    Tok::Quoted(q) => q.chars().next(),
                    Tok::Apostrophe => Some('\''),
                });
                if is_var(*sym, *width) && matches!(next_char, Some(ch) if ch.is_ascii_digit()) {
                    return Verdict::Skip("outside the unambiguous grammar: variable-width field followed by a digit");
                }
                if (*sym == 'x' || *sym == 'X') && *width == 5 && next_char == Some(':') {
                    // ambiguous only if a digit follows the colon (it would read as offset seconds)
                    let second = match fmt::render(&t[i + 1..], &f, c.off) {
                        Ok(rest) => rest.chars().nth(1),
                        Err(why) => return Verdict::Skip(why),
                    };
                    if matches!(second, Some(ch) if ch.is_ascii_digit()) {
                        return Verdict::Skip("outside the unambiguous grammar: width-5 zone followed by ':' and a digit");
                    }
                    cx.nt("zone_width_5_followed_by_colon_non_digit");
                }
            }
        }
        let hour_ok = ph.is_some() || pk.is_some() || ((phh.is_some() || pkk.is_some()) && period.is_some());
        let any_hour = ph.is_some() || pk.is_some() || phh.is_some() || pkk.is_some();
        if any_hour && !hour_ok {
            return Verdict::Skip("outside the coherent grammar: 12-hour clock without period");
        }
        if (ph.is_some() && pk.is_some()) || (phh.is_some() && pkk.is_some()) {
            return Verdict::Skip("outside the coherent grammar: several hour fields of one clock system");
        }
        if (ph.is_some() || pk.is_some()) && (phh.is_some() || pkk.is_some()) {
            cx.nt("12h_field_next_to_a_24h_field");
        }
        if period.is_some() && !any_hour {
            if present(t, 'b').is_some() {
                // 11:00:00 prints "AM 0 0", which reads back as 00:00:00 = "midnight"
                return Verdict::Skip("outside the unambiguous grammar: b without an hour field");
            }
            cx.nt("period_without_an_hour_field");
        }
        if present(t, 'b').is_some() && !(pmin.is_some() && psec.is_some()) {
            return Verdict::Skip("outside the coherent grammar: b without minute and second");
        }
        if (pmin.is_some() && !any_hour) || (psec.is_some() && pmin.is_none()) || (pn.is_some() && psec.is_none()) {
            cx.nt("finer_time_field_without_the_coarser_one");
        }
        let date_full = py.is_some() && py != Some(2) && ((pm.is_some() && pd.is_some()) || pdd.is_some());
        if pdd.is_some() && (py.is_none() || pm.is_some() || pd.is_some()) {
            return Verdict::Skip("outside the coherent grammar: day of year without year / next to month or day");
        }
        if pd.is_some() && py.is_some() && pm.is_none() {
            return Verdict::Skip("outside the coherent grammar: year and day without month");
        }
        if py.is_none() && pm.is_some() && pd.is_some() && f.month == 2 && f.dom == 29 {
            return Verdict::Skip("outside the coherent grammar: Feb 29 without a year");
        }
        if (present(t, 'G').is_some() || present(t, 'q').is_some() || present(t, 'w').is_some() || present(t, 'e').is_some()) && !date_full {
            return Verdict::Skip("outside the coherent grammar: derived date field without a full date");
        }
        if py == Some(2) && (pm.is_some() || pdd.is_some()) && f.year < 0 && f.year <= -10 {
            return Verdict::Skip("yy for years <= -10 (sign) unspecified");
        }
        if py.is_some() && !((pm.is_some() && pd.is_some()) || pdd.is_some()) && (f.year == cal::MIN_YMD.0 || f.year == cal::MAX_YMD.0) {
            return Verdict::Skip("partial date in a range-end year (the defaulted month/day may not exist there)");
        }
        if c.kind == Kind::DateTime && (c.v.day <= cal::MIN_DAY + 1 || c.v.day >= cal::MAX_DAY - 1) {
            let full = py.is_some() && py != Some(2) && ((pm.is_some() && pd.is_some()) || pdd.is_some()) && hour_ok && pmin.is_some() && psec.is_some();
            if !full {
                return Verdict::Skip("value on an outermost day with a pattern that drops date/time fields (the truncated value may not be representable)");
            }
        }
        // classification
        let nfields = seen.len();
        if nfields >= 4 && t.iter().any(|tk| matches!(tk, Tok::Field { sym, width } if is_var(*sym, *width))) {
            cx.nt("4+_fields_with_variable_width");
        }
        if f.year < 0 && py.is_some() {
            cx.nt("bc_year");
        }
        if c.kind != Kind::Time && (c.v.day <= cal::MIN_DAY + 1 || c.v.day >= cal::MAX_DAY - 1) {
            cx.nt("value_on_an_outermost_day");
        }
        if f.year.abs() >= 10_000 && py.is_some() {
            cx.nt("5+_digit_year");
        }
        if (phh.is_some() || pkk.is_some()) && f.hour % 12 == 0 {
            cx.nt("12h_clock_at_0_or_12");
        }
        if pk.is_some() && f.hour == 0 {
            cx.nt("k_at_hour_0");
        }
        if pdd.is_some() {
            cx.nt("day_of_year");
        }
        if zone.is_some() && c.off % 3600 != 0 {
            cx.nt("offset_with_minutes_or_seconds");
        }
        if pm == Some(1) && f.month >= 10 {
            cx.nt("single_letter_month_two_digits");
        }
        if matches!(zone, Some((_, 5))) {
            cx.label("zone_width_5");
        }
        if pattern.chars().any(|ch| !ch.is_ascii()) {
            cx.nt("non_ascii_literal");
        }
        cx.label(match c.kind {
            Kind::Date => "date",
            Kind::Time => "time",
            Kind::DateTime => "datetime",
        });
        // format
        let s = match format_value(c.kind, c.v, c.off, &pattern) {
            Ok(s) => s,
            Err(p) => return fail("c12.format_panic", format!("format({:?}) returns", pattern), p.short()),
        };
        // precision carried by the pattern (for the instant comparison)
        let time_full = hour_ok && pmin.is_some() && psec.is_some();
        let digits = match pn {
            None => 0,
            Some(1) => 1,
            Some(2) => 2,
            Some(4) => 6,
            Some(5) => 9,
            Some(_) => 3,
        };
        let unit = 10i128.pow(9 - digits);
        let what = format!("{:?} {} [{}] pattern {:?} text {:?}", c.kind, fmt_instant(c.v.i()), c.off, pattern, s);
        // what a call returns may not depend on what was asked before: in one case out of three the
        // same text and pattern are first offered to the two other types (a pattern that mixes date
        // and time symbols tokenises differently for Date, Time and DateTime)
        if (c.v.ns as u64 ^ c.v.day as u64 ^ s.len() as u64) % 3 == 0 {
            cx.label("same_text_and_pattern_offered_to_the_other_types_first");
            let _ = catch(|| {
                if c.kind != Kind::Date {
                    let _ = Date::parse(&s, &pattern);
                }
                if c.kind != Kind::Time {
                    let _ = Time::parse(&s, &pattern);
                }
                if c.kind != Kind::DateTime {
                    let _ = DateTime::parse(&s, &pattern);
                }
            });
        }
        type Parsed = (String, i128, Option<i32>, (i64, u32, u32), i64);
        let parsed: Result<Result<Parsed, String>, PanicInfo> = catch(|| match c.kind {
            Kind::Date => Date::parse(&s, &pattern).map_err(|e| e.to_string()).map(|d| {
                let day = rd_date(&d);
                (d.format(&pattern), day as i128 * tl::DAY_NS, None, cal::ymd_from_days(day), 0)
            }),
            Kind::Time => Time::parse(&s, &pattern).map_err(|e| e.to_string()).map(|tm| {
                let off = match tm.get_offset() {
                    Offset::Fixed(o) => Some(o),
                    _ => None,
                };
                let local = (tm.as_nanos() as i128 + off.unwrap_or(0) as i128 * tl::NS).rem_euclid(tl::DAY_NS);
                (tm.format(&pattern), tm.as_nanos() as i128, off, (1, 1, 1), local as i64)
            }),
            Kind::DateTime => DateTime::parse(&s, &pattern).map_err(|e| e.to_string()).map(|d| {
                let off = match d.get_offset() {
                    Offset::Fixed(o) => Some(o),
                    _ => None,
                };
                let i = rd_dt(&d);
                let lf = tl::fields(i + off.unwrap_or(0) as i128 * tl::NS);
                if let Err(why) = canonical_dt(&d) {
                    return (format!("<non-canonical value: {}>", why), i, off, (lf.year, lf.month, lf.dom), lf.day_ns);
                }
                (d.format(&pattern), i, off, (lf.year, lf.month, lf.dom), lf.day_ns)
            }),
        });
        let (s2, inst, got_off, local_date, local_tod) = match parsed {
            Err(p) => return fail("c12.parse_panic", format!("parse returns for {}", what), p.short()),
            Ok(Err(e)) => {
                let sig = if pm == Some(1) && f.month >= 10 {
                    "c12.single_letter_month_two_digits"
                } else if matches!(zone, Some((_, 5))) {
                    "c12.zone_width5_lookahead"
                } else if pattern.chars().any(|ch| !ch.is_ascii()) {
                    "c12.non_ascii_literal"
                } else {
                    "c12.parse_rejects_own_output"
                };
                return fail(sig, format!("parse succeeds for {}", what), format!("Err({})", e));
            }
            Ok(Ok(v)) => v,
        };
        if s2 != s {
            let sig = if matches!(zone, Some((_, 5))) { "c12.zone_width5_lookahead" } else { "c12.reformat_differs" };
            return fail(sig, format!("formatting the parsed value reproduces {:?} ({})", s, what), format!("{:?}", s2));
        }
        // defaults of absent groups
        let has_date = py.is_some() || pm.is_some() || pd.is_some() || pdd.is_some();
        if c.kind != Kind::Time && !has_date && local_date != (1, 1, 1) {
            return fail("c12.default_date", format!("no date field => 0001-01-01 ({})", what), format!("{:?}", local_date));
        }
        if c.kind != Kind::Date {
            // every time field that is present comes back, every absent one is zero (a period
            // marker without an hour field stands for 00:00 or 12:00)
            let digits_unit: i64 = match pn {
                Some(1) => 100_000_000,
                Some(2) => 10_000_000,
                Some(4) => 1_000,
                Some(5) => 1,
                Some(_) => 1_000_000,
                None => 1_000_000_000,
            };
            let hour = if hour_ok { f.hour as i64 } else if period.is_some() && f.hour >= 12 { 12 } else { 0 };
            let want_tod = hour * 3_600_000_000_000
                + if pmin.is_some() { f.minute as i64 * 60_000_000_000 } else { 0 }
                + if psec.is_some() { f.second as i64 * 1_000_000_000 } else { 0 }
                + if pn.is_some() { f.subsec as i64 / digits_unit * digits_unit } else { 0 };
            if local_tod != want_tod {
                let sig = if !any_hour && pmin.is_none() && psec.is_none() && pn.is_none() && period.is_none() { "c12.default_time" } else { "c12.time_fields_differ" };
                return fail(sig, format!("time of day {} ns (present fields kept, absent fields zero) for {}", want_tod, what), format!("{} ns", local_tod));
            }
        }
        if c.kind != Kind::Date && zone.is_none() && got_off != Some(0) {
            return fail("c12.default_offset", format!("no zone field => UTC ({})", what), format!("{:?}", got_off));
        }
        // same instant when fully determined
        match c.kind {
            Kind::Date => {
                if date_full && inst != c.v.day as i128 * tl::DAY_NS {
                    return fail("c12.date_differs", format!("same date for {}", what), fmt_instant(inst));
                }
            }
            Kind::Time => {
                if time_full && zone.is_some() {
                    cx.nt("fully_determined");
                    let local = (c.v.ns as i128 + c.off as i128 * tl::NS).rem_euclid(tl::DAY_NS);
                    let want = ((local - local % unit) - c.off as i128 * tl::NS).rem_euclid(tl::DAY_NS);
                    if inst != want || got_off != Some(c.off) {
                        return fail("c12.time_differs", format!("same time {} ns and offset {} for {}", want, c.off, what), format!("{} ns, offset {:?}", inst, got_off));
                    }
                }
            }
            Kind::DateTime => {
                if date_full && time_full && zone.is_some() {
                    cx.nt("fully_determined");
                    let local = c.v.i() + c.off as i128 * tl::NS;
                    let want = local - local.rem_euclid(unit) - c.off as i128 * tl::NS;
                    if inst != want || got_off != Some(c.off) {
                        return fail("c12.instant_differs", format!("same instant {} and offset {} for {}", fmt_instant(want), c.off, what), format!("{}, offset {:?}", fmt_instant(inst), got_off));
                    }
                }
            }
        }
        Verdict::Pass
    }
}

pub fn run(env: &mut Env) {
    let t = env.thorough();
    env.run_random::<RoundTrip>(if t { 10_000_000 } else { 2_000_000 });
}
