//! C05 — month and year arithmetic keeps the day of month, clamped, across every year.
use crate::engine::*;
use crate::gen;
use crate::model::{cal, tl};
use crate::obs::*;
use arbitrary::Unstructured;
use astrolabe::{DateUtilities, OffsetUtilities, Offset};
use serde::{Deserialize, Serialize};

#[derive(Debug, Clone, Hash, Serialize, Deserialize)]
pub struct Case {
    pub day: i64,
    /// time of day for DateTime receivers
    pub ns: i64,
    pub off: i32,
    pub n: u32,
    /// 0 add_months, 1 sub_months, 2 add_years, 3 sub_years
    pub op: u8,
    pub datetime: bool,
}

const OPS: [&str; 4] = ["add_months", "sub_months", "add_years", "sub_years"];

fn n_atoms(u: &mut Unstructured, day: i64, op: u8) -> arbitrary::Result<u32> {
    let (y, m, _) = cal::ymd_from_days(day);
    let k = u.below(12)?;
    Ok(match k {
        0 | 1 => *u.choose(&[0u32, 1, 2, 11, 12, 13, 23, 24, 25, 1200, 4800])?,
        2 => (m as i64 + u.range_i64(-1, 1)?).max(0) as u32,
        3 => {
            // exact distance to the range end in the direction of travel, +- 1
            let a = cal::astro_from_display(y);
            let months_to_max = (cal::astro_from_display(cal::MAX_YMD.0) - a) * 12 + (cal::MAX_YMD.1 as i64 - m as i64);
            let months_to_min = (a - cal::astro_from_display(cal::MIN_YMD.0)) * 12 + (m as i64 - cal::MIN_YMD.1 as i64);
            let dist = match op {
                0 => months_to_max,
                1 => months_to_min,
                2 => months_to_max / 12,
                _ => months_to_min / 12,
            };
            (dist + u.range_i64(-2, 2)?).clamp(0, u32::MAX as i64) as u32
        }
        4 => {
            // distance to the era boundary +- 1 (months or years)
            let a = cal::astro_from_display(y);
            let dist = if op < 2 { (a - 1).abs() * 12 + m as i64 } else { (a - 1).abs() };
            (dist + u.range_i64(-13, 13)?).clamp(0, u32::MAX as i64) as u32
        }
        5 => u.int_in_range(0..=50u32)?,
        6 => u.int_in_range(0..=5000u32)?,
        // whole multiples of a year, a leap cycle, a century, a 400-year cycle (+- a few)
        7 => {
            let base = *u.choose(&[12u32, 48, 1200, 4800, 4, 100, 400])?;
            let k = u.int_in_range(0..=60u32)?;
            (k * base).saturating_add(u.int_in_range(0..=2u32)?).saturating_sub(1)
        }
        _ => gen::count(u)?,
    })
}

pub struct Months;
impl Prop for Months {
    type Case = Case;
    const NAME: &'static str = "C05.months_years";
    const BYTES: usize = 96;
    fn gen(u: &mut Unstructured<'_>) -> arbitrary::Result<Case> {
        let k = u.below(8)?;
        let day = match k {
            // month ends 28..31 and Feb 29 in leap years (AD and BC)
            0 | 1 | 2 => {
                let y = gen::year(u)?.clamp(cal::MIN_YMD.0 + 1, cal::MAX_YMD.0 - 1);
                let y = if y == 0 { -1 } else { y };
                let y = if u.coin(1, 3)? {
                    // force a leap year
                    let a = cal::astro_from_display(y);
                    let a4 = a - a.rem_euclid(4);
                    let yy = cal::display_from_astro(a4);
                    if cal::is_leap(yy) && yy > cal::MIN_YMD.0 { yy } else { y }
                } else {
                    y
                };
                let m = 1 + u.below(12)? as u32;
                let d = (28 + u.below(4)? as u32).min(cal::month_len(y, m));
                cal::days_from_ymd(y, m, d)
            }
            3 => u.range_i64(-1500, 1500)?,
            _ => gen::day(u)?,
        };
        let op = u.below(4)? as u8;
        let n = n_atoms(u, day, op)?;
        let datetime = u.coin(1, 2)?;
        let off = if datetime && u.coin(1, 4)? { gen::offset(u)? } else { 0 };
        // offset-carrying receivers on the outermost days (built by arithmetic, obs::mk_dt_off_late)
        let day = if off != 0 && u.coin(1, 10)? { if u.coin(1, 2)? { cal::MAX_DAY - u.below(2)? as i64 } else { cal::MIN_DAY + u.below(2)? as i64 } } else { day };
        Ok(Case { day, ns: gen::day_ns(u)?, off, n, op, datetime })
    }
    fn check(c: &Case, cx: &mut Cx) -> Verdict {
        if !(cal::MIN_DAY..=cal::MAX_DAY).contains(&c.day) || !(0..86_400_000_000_000).contains(&c.ns) || c.op > 3 || c.off.unsigned_abs() > 86_399 {
            return Verdict::Skip("malformed case");
        }
        let late = c.datetime && c.off != 0 && (c.day < cal::MIN_DAY + 1 || c.day > cal::MAX_DAY - 1);
        if late {
            cx.nt("offset_receiver_on_an_outermost_day_built_by_arithmetic");
        }
        let start = cal::ymd_from_days(c.day);
        let delta: i64 = match c.op {
            0 => c.n as i64,
            1 => -(c.n as i64),
            2 => c.n as i64 * 12,
            _ => -(c.n as i64) * 12,
        };
        let target = cal::add_months(start, delta);
        if c.n <= 50 && c.op < 2 {
            let b = cal::add_months_b(start, delta);
            if b != target {
                return fail("harness.oracle_inconsistent", format!("{:?}", target), format!("{:?}", b));
            }
        }
        let in_range = cal::valid_in_range(target.0, target.1, target.2);
        // classification
        if start.2 >= 29 {
            cx.nt("day>=29");
            if target.2 != start.2 {
                cx.nt("clamped");
            }
        }
        if (start.0 < 0) != (target.0 < 0) {
            cx.nt("crosses_era");
        }
        if start.0 < 0 {
            cx.nt("bc_start");
        }
        if c.op == 1 && (c.n % 12) as u32 >= start.1 {
            cx.nt("sub_borrows_year");
        }
        if c.n >= 1 << 31 {
            cx.nt("n>=2^31");
        }
        {
            // target within a month of a range end (either side)
            let ta = cal::astro_from_display(target.0) * 12 + target.1 as i64;
            let hi = cal::astro_from_display(cal::MAX_YMD.0) * 12 + cal::MAX_YMD.1 as i64;
            let lo = cal::astro_from_display(cal::MIN_YMD.0) * 12 + cal::MIN_YMD.1 as i64;
            if (ta - hi).abs() <= 1 || (ta - lo).abs() <= 1 {
                cx.nt("target_near_range_end");
            }
        }
        if !in_range {
            cx.label("target_out_of_range");
        }
        if c.datetime {
            cx.label("datetime");
            if c.off != 0 {
                cx.label("with_offset");
            }
        }
        let what = format!(
            "{}({}) on {}-{:02}-{:02}{}",
            OPS[c.op as usize],
            c.n,
            start.0,
            start.1,
            start.2,
            if c.datetime { format!(" +{}ns [{}]", c.ns, c.off) } else { String::new() }
        );
        let sigbase = format!("c05.{}", OPS[c.op as usize]);
        if !c.datetime {
            let d0 = mk_date(c.day);
            let r = catch(|| {
                let r = match c.op {
                    0 => d0.add_months(c.n),
                    1 => d0.sub_months(c.n),
                    2 => d0.add_years(c.n),
                    _ => d0.sub_years(c.n),
                };
                rd_date(&r)
            });
            return judge(&sigbase, &what, in_range, target, r.map(|d| (d, 0, None)), 0, None);
        }
        let ia = c.day as i128 * tl::DAY_NS + c.ns as i128;
        let mut want_off = Offset::Fixed(c.off);
        let d0 = match catch(|| if late || c.off == 0 { (if late { mk_dt_off_late(ia, c.off) } else { mk_dt_off_any(ia, c.off) }, false) } else { mk_dt_off_pin(ia, c.off) }) {
            Ok((d, local)) => {
                if local {
                    cx.nt("offset_carried_as_Offset::Local");
                    want_off = Offset::Local;
                }
                d
            }
            Err(p) => return fail("c05.harness_build", "receiver builds", p.short()),
        };
        let r = catch(|| {
            let r = match c.op {
                0 => d0.add_months(c.n),
                1 => d0.sub_months(c.n),
                2 => d0.add_years(c.n),
                _ => d0.sub_years(c.n),
            };
            let i = rd_dt(&r);
            if (c.ns ^ c.day) % 4 == 0 {
                if let Err(why) = canonical_dt(&r) {
                    panic!("non-canonical result: {}", why);
                }
            }
            (i.div_euclid(tl::DAY_NS) as i64, i.rem_euclid(tl::DAY_NS) as i64, Some(r.get_offset()))
        });
        if c.off != 0 {
            // which zone "day of month" is read in is not specified when an offset is set:
            // only time of day and offset preservation are asserted
            // the two readings of "the date": the UTC date (what the code does) and the date in the
            // value's own zone. Where both give a representable result whose reading in its zone
            // is representable too, a panic is a violation and the result is one of the two; where
            // both lie outside the range, the call has to panic; in between nothing is asserted.
            let local = ia + c.off as i128 * tl::NS;
            let lstart = cal::ymd_from_days(local.div_euclid(tl::DAY_NS) as i64);
            let ltarget = cal::add_months(lstart, delta);
            let utc_res = if in_range { Some(cal::days_from_ymd(target.0, target.1, target.2) as i128 * tl::DAY_NS + c.ns as i128) } else { None };
            let loc_res = if cal::valid_in_range(ltarget.0, ltarget.1, ltarget.2) {
                let l = cal::days_from_ymd(ltarget.0, ltarget.1, ltarget.2) as i128 * tl::DAY_NS + local.rem_euclid(tl::DAY_NS);
                if tl::representable(l - c.off as i128 * tl::NS) { Some(l - c.off as i128 * tl::NS) } else { None }
            } else {
                None
            };
            let settled = |x: Option<i128>| x.map_or(false, |i| tl::representable(i + c.off as i128 * tl::NS));
            match (&r, utc_res, loc_res) {
                (Err(p), Some(_), Some(_)) if settled(utc_res) && settled(loc_res) && tl::representable(local) => {
                    return fail(
                        &format!("{}.panics_though_in_range", sigbase),
                        format!("{} returns (the target date is inside the range whether it is read in UTC or in the value's zone)", what),
                        p.short(),
                    );
                }
                (Ok((day, ns, _)), None, None) => {
                    return fail(
                        &format!("{}.no_panic_out_of_range", sigbase),
                        format!("{} panics (the target date is outside the range whether it is read in UTC or in the value's zone)", what),
                        format!("returned {} +{}ns", fmt_day(*day), ns),
                    );
                }
                (Ok((day, ns, _)), Some(a), Some(b)) => {
                    cx.nt("offset_receiver_judged_on_both_readings_of_the_date");
                    let got = *day as i128 * tl::DAY_NS + *ns as i128;
                    if got != a && got != b {
                        return fail(
                            &format!("{}.wrong_date", sigbase),
                            format!("{} = {} (UTC date) or {} (date in the value's zone)", what, fmt_instant(a), fmt_instant(b)),
                            fmt_instant(got),
                        );
                    }
                }
                _ => cx.label("offset_receiver_near_a_range_end(readings_disagree,not_judged)"),
            }
            return match r {
                Ok((_, ns, off)) => {
                    if ns != c.ns {
                        return fail(&format!("{}.time_of_day_changed", sigbase), format!("{} keeps time of day {}", what, c.ns), format!("{}", ns));
                    }
                    if off != Some(want_off) {
                        return fail(&format!("{}.offset_changed", sigbase), format!("{} keeps offset {}", what, c.off), format!("{:?}", off));
                    }
                    Verdict::Pass
                }
                Err(_) => Verdict::Pass,
            };
        }
        judge(&sigbase, &what, in_range, target, r, c.ns, Some(Offset::Fixed(0)))
    }
}

fn judge(
    sigbase: &str,
    what: &str,
    in_range: bool,
    target: (i64, u32, u32),
    r: Result<(i64, i64, Option<Offset>), PanicInfo>,
    want_ns: i64,
    want_off: Option<Offset>,
) -> Verdict {
    match (in_range, r) {
        (true, Err(p)) => fail(&format!("{}.panics_though_in_range", sigbase), format!("{} = {}-{:02}-{:02}", what, target.0, target.1, target.2), p.short()),
        (true, Ok((day, ns, off))) => {
            let want_day = cal::days_from_ymd(target.0, target.1, target.2);
            if day != want_day {
                return fail(&format!("{}.wrong_date", sigbase), format!("{} = {}-{:02}-{:02}", what, target.0, target.1, target.2), fmt_day(day));
            }
            if ns != want_ns {
                return fail(&format!("{}.time_of_day_changed", sigbase), format!("{} keeps time of day {}", what, want_ns), format!("{}", ns));
            }
            if off != want_off {
                return fail(&format!("{}.offset_changed", sigbase), format!("offset {:?}", want_off), format!("{:?}", off));
            }
            Verdict::Pass
        }
        (false, Ok((day, _, _))) => fail(
            &format!("{}.no_panic_out_of_range", sigbase),
            format!("{} panics (target {}-{:02}-{:02} is outside the representable range)", what, target.0, target.1, target.2),
            format!("returned {}", fmt_day(day)),
        ),
        (false, Err(_)) => Verdict::Pass,
    }
}

pub fn run(env: &mut Env) {
    let t = env.thorough();
    // complete product: every (month, day) x N <= 50 x 4 ops over a window of years
    let (y0, y1): (i64, i64) = if t { (-800, 800) } else { (-12, 12) };
    let years: Vec<i64> = (y0..=y1).filter(|y| *y != 0).chain([1896, 1900, 1999, 2000, 2001, 2024, -401, -400, -101, -100].into_iter().filter(|_| !t)).collect();
    let years = std::sync::Arc::new(years);
    let yc = years.clone();
    env.run_enum::<Months, _>(years.len() as u64, move |i| {
        let y = yc[i as usize];
        let mut v = Vec::new();
        for m in 1..=12u32 {
            for d in 1..=cal::month_len(y, m) {
                if !t && d > 2 && d < 27 {
                    continue;
                }
                let day = cal::days_from_ymd(y, m, d);
                for n in 0..=50u32 {
                    for op in 0..4u8 {
                        v.push(Case { day, ns: 0, off: 0, n, op, datetime: (n + d) % 2 == 0 });
                    }
                }
            }
        }
        v.into_iter()
    });
    env.exhaustive_parts.push(format!("C05: all (month, day{}) x N in 0..=50 x 4 operations for years {}..={}", if t { "" } else { " in 1,2,27..31" }, y0, y1));
    env.run_random::<Months>(if t { 40_000_000 } else { 5_000_000 });
}
