//! C15 — fallible constructors accept exactly the valid inputs, reject the rest.
use crate::engine::*;
use crate::gen::{self, Inst};
use crate::model::{cal, tl};
use crate::obs::*;
use crate::props::c09;
use arbitrary::Unstructured;
use astrolabe::errors::AstrolabeError;
use astrolabe::{Date, DateTime, DateUtilities, Offset, OffsetUtilities, Time, TimeUtilities};
use serde::{Deserialize, Serialize};

#[derive(Debug, Clone, Hash, Serialize, Deserialize)]
pub struct Case {
    /// see API table
    pub api: u8,
    /// setter index for api 9/10/11
    pub field: u8,
    pub args: Vec<i64>,
    /// receiver for the setters
    pub recv: Inst,
    pub off: i32,
    /// != 0 (DateTime setters only): the receiver carries its offset as `Offset::Local` under an
    /// injected zone whose offset at this pinned Unix time is `off`
    #[serde(default)]
    pub local_now: i64,
}

const DAYNS: i128 = 86_400_000_000_000;

struct Api {
    name: &'static str,
    /// (message name, kind) per argument; kind: 'y' i32 year, 'i' i32, 'u' u32, 'n' u64
    args: &'static [(&'static str, char)],
}

const APIS: [Api; 9] = [
    Api { name: "Date::from_ymd", args: &[("year", 'y'), ("month", 'u'), ("day", 'u')] },
    Api { name: "DateTime::from_ymd", args: &[("year", 'y'), ("month", 'u'), ("day", 'u')] },
    Api { name: "DateTime::from_ymdhms", args: &[("year", 'y'), ("month", 'u'), ("day", 'u'), ("hour", 'u'), ("minute", 'u'), ("second", 'u')] },
    Api { name: "DateTime::from_hms", args: &[("hour", 'u'), ("minute", 'u'), ("second", 'u')] },
    Api { name: "Time::from_hms", args: &[("hour", 'u'), ("minute", 'u'), ("second", 'u')] },
    Api { name: "Time::from_seconds", args: &[("seconds", 'u')] },
    Api { name: "Time::from_nanos", args: &[("nanoseconds", 'n')] },
    Api { name: "Offset::from_seconds", args: &[("seconds", 'i')] },
    Api { name: "Offset::from_hms", args: &[("hour", 'i'), ("minute", 'u'), ("second", 'u')] },
];
const DT_SETTERS: [(&str, &str); 10] = [
    ("set_year", "year"), ("set_month", "month"), ("set_day", "day"), ("set_day_of_year", "day of year"), ("set_hour", "value"),
    ("set_minute", "value"), ("set_second", "value"), ("set_milli", "value"), ("set_micro", "value"), ("set_nano", "value"),
];

fn arg_specs(c: &Case) -> Vec<(&'static str, char)> {
    match c.api {
        0..=8 => APIS[c.api as usize].args.to_vec(),
        9 | 10 => vec![(DT_SETTERS[c.field as usize].1, if c.field == 0 { 'y' } else { 'u' })],
        _ => vec![("value", 'u')],
    }
}

fn api_name(c: &Case) -> String {
    match c.api {
        0..=8 => APIS[c.api as usize].name.to_string(),
        9 => format!("DateTime::{}", DT_SETTERS[c.field as usize].0),
        10 => format!("Date::{}", DT_SETTERS[c.field as usize].0),
        _ => format!("Time::{}", DT_SETTERS[c.field as usize + 4].0),
    }
}

fn in_domain(v: i64, kind: char) -> bool {
    match kind {
        'y' | 'i' => i32::try_from(v).is_ok(),
        'u' => u32::try_from(v).is_ok(),
        _ => true,
    }
}

/// model: Some(canonical value) when the call must succeed
fn model(c: &Case) -> Option<i128> {
    let a = &c.args;
    let hms = |h: i64, m: i64, s: i64| -> Option<i128> {
        if (0..=23).contains(&h) && (0..=59).contains(&m) && (0..=59).contains(&s) {
            Some((h * 3600 + m * 60 + s) as i128 * tl::NS)
        } else {
            None
        }
    };
    let ymd = |y: i64, m: i64, d: i64| -> Option<i128> {
        if m >= 0 && d >= 0 && m <= 13 && d <= 40 && cal::valid_in_range(y, m as u32, d as u32) {
            Some(cal::days_from_ymd(y, m as u32, d as u32) as i128 * DAYNS)
        } else {
            None
        }
    };
    match c.api {
        0 | 1 => ymd(a[0], a[1], a[2]),
        2 => Some(ymd(a[0], a[1], a[2])? + hms(a[3], a[4], a[5])?),
        3 | 4 => hms(a[0], a[1], a[2]),
        5 => {
            if (0..86_400).contains(&a[0]) {
                Some(a[0] as i128 * tl::NS)
            } else {
                None
            }
        }
        6 => {
            let n = a[0] as u64 as i128;
            if n < DAYNS {
                Some(n)
            } else {
                None
            }
        }
        7 => {
            if (-86_399..=86_399).contains(&a[0]) {
                Some(a[0] as i128)
            } else {
                None
            }
        }
        8 => {
            if (-23..=23).contains(&a[0]) && (0..=59).contains(&a[1]) && (0..=59).contains(&a[2]) {
                let mag = a[0].abs() * 3600 + a[1] * 60 + a[2];
                Some(if a[0] < 0 { -mag } else { mag } as i128)
            } else {
                None
            }
        }
        9 => {
            let local = c.recv.i() + c.off as i128 * tl::NS;
            c09::model(local, &c09::Op::Set { field: c.field, v: a[0] }).map(|l| l - c.off as i128 * tl::NS)
        }
        10 => c09::model(c.recv.day as i128 * DAYNS, &c09::Op::Set { field: c.field, v: a[0] }),
        _ => {
            let local = (c.recv.ns as i128 + c.off as i128 * tl::NS).rem_euclid(DAYNS);
            c09::model(local, &c09::Op::Set { field: c.field + 4, v: a[0] }).map(|l| (l.rem_euclid(DAYNS) - c.off as i128 * tl::NS).rem_euclid(DAYNS))
        }
    }
}

fn call(c: &Case, a: &[i64]) -> Result<Result<i128, AstrolabeError>, PanicInfo> {
    let r = call_pinned(c, a);
    unpin_local();
    r
}

fn call_pinned(c: &Case, a: &[i64]) -> Result<Result<i128, AstrolabeError>, PanicInfo> {
    catch(|| -> Result<i128, AstrolabeError> {
        Ok(match c.api {
            0 => rd_date(&Date::from_ymd(a[0] as i32, a[1] as u32, a[2] as u32)?) as i128 * DAYNS,
            1 => rd_dt(&DateTime::from_ymd(a[0] as i32, a[1] as u32, a[2] as u32)?),
            2 => rd_dt(&DateTime::from_ymdhms(a[0] as i32, a[1] as u32, a[2] as u32, a[3] as u32, a[4] as u32, a[5] as u32)?),
            3 => rd_dt(&DateTime::from_hms(a[0] as u32, a[1] as u32, a[2] as u32)?),
            4 => Time::from_hms(a[0] as u32, a[1] as u32, a[2] as u32)?.as_nanos() as i128,
            5 => Time::from_seconds(a[0] as u32)?.as_nanos() as i128,
            6 => Time::from_nanos(a[0] as u64)?.as_nanos() as i128,
            7 => Offset::from_seconds(a[0] as i32)?.resolve() as i128,
            8 => Offset::from_hms(a[0] as i32, a[1] as u32, a[2] as u32)?.resolve() as i128,
            9 => {
                let local = c.local_now != 0 && local_now_ok(c.local_now) && c.recv.day > cal::MIN_DAY + 3 && c.recv.day < cal::MAX_DAY - 3;
                let r = if local {
                    pin_local(c.off, c.local_now);
                    mk_dt(c.recv.i()).set_offset(Offset::Local)
                } else {
                    mk_dt_off(c.recv.i(), c.off)
                };
                let r = match c.field {
                    0 => r.set_year(a[0] as i32)?,
                    1 => r.set_month(a[0] as u32)?,
                    2 => r.set_day(a[0] as u32)?,
                    3 => r.set_day_of_year(a[0] as u32)?,
                    4 => r.set_hour(a[0] as u32)?,
                    5 => r.set_minute(a[0] as u32)?,
                    6 => r.set_second(a[0] as u32)?,
                    7 => r.set_milli(a[0] as u32)?,
                    8 => r.set_micro(a[0] as u32)?,
                    _ => r.set_nano(a[0] as u32)?,
                };
                rd_dt(&r)
            }
            10 => {
                let r = mk_date(c.recv.day);
                let r = match c.field {
                    0 => r.set_year(a[0] as i32)?,
                    1 => r.set_month(a[0] as u32)?,
                    2 => r.set_day(a[0] as u32)?,
                    _ => r.set_day_of_year(a[0] as u32)?,
                };
                rd_date(&r) as i128 * DAYNS
            }
            _ => {
                let r = mk_time(c.recv.ns as u64).set_offset(Offset::Fixed(c.off));
                let r = match c.field {
                    0 => r.set_hour(a[0] as u32)?,
                    1 => r.set_minute(a[0] as u32)?,
                    2 => r.set_second(a[0] as u32)?,
                    3 => r.set_milli(a[0] as u32)?,
                    4 => r.set_micro(a[0] as u32)?,
                    _ => r.set_nano(a[0] as u32)?,
                };
                r.as_nanos() as i128
            }
        })
    })
}

/// "<name> must be in the range A..=B[, …]" -> (name, A, B)
fn parse_range_message(msg: &str) -> Option<(String, i128, i128)> {
    let idx = msg.find(" must be in the range ")?;
    let name = msg[..idx].to_string();
    let rest = &msg[idx + " must be in the range ".len()..];
    let rest = rest.split(',').next()?;
    let (a, b) = rest.split_once("..=")?;
    Some((name, a.trim().parse().ok()?, b.trim().parse().ok()?))
}

fn atom(u: &mut Unstructured, kind: char, min: i64, max: i64) -> arbitrary::Result<i64> {
    let (tmin, tmax): (i64, i64) = match kind {
        'y' | 'i' => (i32::MIN as i64, i32::MAX as i64),
        'u' => (0, u32::MAX as i64),
        _ => (i64::MIN, i64::MAX),
    };
    let v = match u.below(13)? {
        // a valid value plus one radix: the field's own modulus or a decimal / binary packing unit (day
        // 105 = 1 month + day 5 in a month*100 + day key; hour 24 + h; minute 60 + m)
        12 => u.range_i64(min.max(0), max.max(min.max(0)))? + *u.choose(&[max - min + 1, 100, 1_000, 256, 65_536, 60, 24, 12])?,
        0 => min,
        1 => max,
        2 => max + 1,
        3 => min - 1,
        4 => max - 1,
        5 => *u.choose(&[0i64, 1, (1 << 31) - 1, 1 << 31, (1 << 32) - 1, -1, 1_193_046, 71_582_788, 4_294_967_296 / 60 + 1, 4_294_967_296 / 3600 + 1])?,
        6 => *u.choose(&[tmin, tmax, tmin + 1, tmax - 1])?,
        9 if kind == 'n' => ((u.int_in_range(1..=4i64)? << 32).wrapping_mul(1_000_000_000)).wrapping_add(u.range_i64(0, 90_000)? * 1_000_000_000),
        9 if kind == 'u' => ((u.int_in_range(1..=3i64)? << 30) + u.range_i64(0, 90_000)?).min(tmax),
        7 => u.range_i64(tmin, tmax)?,
        _ => u.range_i64(min, max)?,
    };
    Ok(v.clamp(tmin, tmax))
}

pub struct Ctors;
impl Prop for Ctors {
    type Case = Case;
    const NAME: &'static str = "C15.constructors";
    const BYTES: usize = 128;
    fn gen(u: &mut Unstructured<'_>) -> arbitrary::Result<Case> {
        let api = u.below(12)? as u8;
        let recv = gen::inst(u, 4)?;
        let off = if api == 9 || api == 11 { gen::offset(u)? } else { 0 };
        let field = match api {
            9 => u.below(10)? as u8,
            10 => u.below(4)? as u8,
            11 => u.below(6)? as u8,
            _ => 0,
        };
        let local_now = if api == 9 && u.coin(1, 6)? { u.range_i64(-1_900_000_000, 2_100_000_000)? } else { 0 };
        let mut c = Case { api, field, args: vec![], recv, off, local_now };
        let specs = arg_specs(&c);
        // nominal ranges per message name
        let lf = tl::fields(recv.i() + off as i128 * tl::NS);
        let mut args = Vec::new();
        // decide whether exactly one argument goes off-range
        let off_arg = if u.coin(1, 2)? { Some(u.below(specs.len() as u64)? as usize) } else { None };
        for (k, (name, kind)) in specs.iter().enumerate() {
            let (min, max): (i64, i64) = match (*name, api) {
                ("year", _) => (cal::MIN_YMD.0, cal::MAX_YMD.0),
                ("month", _) => (1, 12),
                ("day", _) => (1, 31),
                ("day of year", _) => (1, cal::year_len(lf.year) as i64),
                ("hour", 8) => (-23, 23),
                ("hour", _) => (0, 23),
                ("minute", _) | ("second", _) => (0, 59),
                ("seconds", 5) => (0, 86_399),
                ("seconds", _) => (-86_399, 86_399),
                ("nanoseconds", _) => (0, 86_399_999_999_999),
                ("value", _) => {
                    let f = if api == 9 { field - 4 } else { field };
                    (0, [23i64, 59, 59, 999, 999_999, 999_999_999][f as usize])
                }
                _ => (0, 0),
            };
            let v = if off_arg == Some(k) || off_arg.is_none() && u.coin(1, 4)? {
                atom(u, *kind, min, max)?
            } else if *name == "year" {
                gen::year(u)?
            } else if *name == "day" {
                *u.choose(&[1i64, 15, 28, 29, 30, 31])?
            } else {
                u.range_i64(min, max)?
            };
            args.push(v);
        }
        // setters: the argument in relation to the value the field has now (+- a few), and - for Time
        // receivers west of Greenwich - the argument that makes the new local time plus the offset
        // exactly 24:00
        if api >= 9 && args.len() == 1 {
            let lt = tl::fields(if api == 11 { (recv.ns as i128 + off as i128 * tl::NS).rem_euclid(DAYNS) } else { recv.i() + off as i128 * tl::NS });
            let idx = if api == 11 { field as usize + 4 } else { field as usize };
            let cur: i64 = [lt.year, lt.month as i64, lt.dom as i64, cal::day_of_year(lt.day) as i64, lt.hour as i64, lt.minute as i64, lt.second as i64, (lt.subsec / 1_000_000) as i64, (lt.subsec / 1_000) as i64, lt.subsec as i64][idx.min(9)];
            if u.coin(1, 6)? {
                args[0] = cur + u.range_i64(-8, 8)?;
                if idx != 0 {
                    args[0] = args[0].max(0);
                }
            } else if api == 11 && field <= 2 && off < 0 && u.coin(1, 3)? {
                // target local time T = 24:00 - |off|; the receiver shows T except in the field being set
                let t = 86_400 + off as i64; // seconds
                let want = [t / 3600, t / 60 % 60, t % 60][field as usize];
                let mut parts = [t / 3600, t / 60 % 60, t % 60];
                parts[field as usize] = u.range_i64(0, if field == 0 { 23 } else { 59 })?;
                let local = (parts[0] * 3600 + parts[1] * 60 + parts[2]) * 1_000_000_000;
                c.recv.ns = (local - off as i64 * 1_000_000_000).rem_euclid(86_400_000_000_000);
                args[0] = want;
            }
        }
        c.args = args;
        Ok(c)
    }
    fn check(c: &Case, cx: &mut Cx) -> Verdict {
        if c.api > 11 || !c.recv.valid() || c.off.unsigned_abs() > 86_399 {
            return Verdict::Skip("malformed case");
        }
        let max_field = match c.api {
            9 => 9,
            10 => 3,
            11 => 5,
            _ => 0,
        };
        if c.field > max_field {
            return Verdict::Skip("malformed case");
        }
        let specs = arg_specs(c);
        if c.args.len() != specs.len() || c.args.iter().zip(&specs).any(|(v, (_, k))| !in_domain(*v, *k)) {
            return Verdict::Skip("malformed case");
        }
        if c.api >= 9 && (c.recv.day < cal::MIN_DAY + 4 || c.recv.day > cal::MAX_DAY - 4) {
            return Verdict::Skip("receiver within 4 days of a range end");
        }
        let want = model(c);
        if c.api == 9 || c.api == 10 {
            if let Some(w) = want {
                let d = (w + if c.api == 9 { c.off as i128 * tl::NS } else { 0 }).div_euclid(DAYNS) as i64;
                if d < cal::MIN_DAY + 2 || d > cal::MAX_DAY - 2 {
                    return Verdict::Skip("target within 2 days of a range end (unspecified)");
                }
            }
        }
        let name = api_name(c);
        cx.label(match c.api {
            0..=2 => "date_constructors",
            3 | 4 => "from_hms",
            5 | 6 => "time_from_seconds_nanos",
            7 | 8 => "offset_constructors",
            9 => "datetime_setters",
            10 => "date_setters",
            _ => "time_setters",
        });
        if c.args.iter().any(|v| *v >= 1 << 31) {
            cx.nt("argument>=2^31");
        }
        if want.is_none() {
            // exactly one argument one step outside?
            let mut fixable = 0;
            for k in 0..c.args.len() {
                for d in [-1i64, 1] {
                    let mut c2 = c.clone();
                    c2.args[k] = c2.args[k].wrapping_add(d);
                    if in_domain(c2.args[k], specs[k].1) && model(&c2).is_some() {
                        fixable += 1;
                        break;
                    }
                }
            }
            if fixable >= 1 {
                cx.nt("one_step_outside");
            }
            cx.label("invalid");
        } else {
            cx.label("valid");
            if specs.iter().any(|(n, _)| *n == "day") && c.args.len() >= 3 && c.args[2] >= 28 {
                cx.nt("conditional_range_month_length");
            }
            if specs[0].0 == "year" && (c.args[0] == cal::MIN_YMD.0 || c.args[0] == cal::MAX_YMD.0) {
                cx.nt("range_end_year");
            }
        }
        if c.api == 9 && c.local_now != 0 && local_now_ok(c.local_now) {
            cx.nt("offset_carried_as_Offset::Local");
        }
        let what = format!("{}({:?}){}{}", name, c.args, if c.api >= 9 { format!(" on {} [{}]", fmt_instant(c.recv.i()), c.off) } else { String::new() }, if c.local_now != 0 { " carried as Offset::Local" } else { "" });
        let sig = format!("c15.{}", name.replace("::", "_").to_lowercase());
        let err = match (want, call(c, &c.args)) {
            (_, Err(p)) => return fail(&format!("{}.panic", sig), format!("{} returns a Result", what), p.short()),
            (Some(w), Ok(Ok(v))) => {
                if v != w {
                    return fail(&format!("{}.wrong_value", sig), format!("{} = {}", what, w), format!("{}", v));
                }
                return Verdict::Pass;
            }
            (Some(w), Ok(Err(e))) => return fail(&format!("{}.rejects_valid", sig), format!("{} = Ok({})", what, w), format!("Err({})", e)),
            (None, Ok(Ok(v))) => return fail(&format!("{}.accepts_invalid", sig), format!("{} = Err(OutOfRange)", what), format!("Ok({})", v)),
            (None, Ok(Err(e))) => e,
        };
        if !matches!(err, AstrolabeError::OutOfRange(_)) {
            return fail(&format!("{}.wrong_error_kind", sig), format!("{} = Err(OutOfRange)", what), format!("{:?}", err));
        }
        // message consistency
        let msg = err.to_string();
        let Some((mname, lo, hi)) = parse_range_message(&msg) else {
            cx.label("message_without_range");
            return Verdict::Pass;
        };
        let Some(k) = specs.iter().position(|(n, _)| *n == mname) else {
            cx.label("message_names_a_receiver_field");
            // e.g. set_month(2) on the 31st: "day must be in the range 1..=28, because ...": the
            // rejected value is the receiver's own (local) field, which the stated range must exclude
            if c.api == 9 || c.api == 10 {
                let lf = if c.api == 9 { tl::fields(c.recv.i() + c.off as i128 * tl::NS) } else { tl::fields(c.recv.day as i128 * DAYNS) };
                let kept = match mname.as_str() {
                    "year" => Some(lf.year as i128),
                    "month" => Some(lf.month as i128),
                    "day" => Some(lf.dom as i128),
                    _ => None,
                };
                if let Some(v) = kept {
                    cx.nt("receiver_field_range_in_the_message_checked");
                    if (lo..=hi).contains(&v) {
                        return fail(
                            &format!("{}.message_range_contains_rejected_value", sig),
                            format!("{}: message {:?} names a range that excludes the receiver's {} = {} (the value that makes the requested date invalid)", what, msg, mname, v),
                            "the stated range contains it".to_string(),
                        );
                    }
                }
            }
            return Verdict::Pass;
        };
        cx.nt("message_range_checked");
        let as_num = |v: i64| if specs[k].1 == 'n' { v as u64 as i128 } else { v as i128 };
        let rejected = as_num(c.args[k]);
        if (lo..=hi).contains(&rejected) {
            return fail(
                &format!("{}.message_range_contains_rejected_value", sig),
                format!("{}: message {:?} names a range that excludes the rejected {} = {}", what, msg, mname, rejected),
                "the stated range contains it".to_string(),
            );
        }
        // sweep alternatives of the named argument: every accepted one must lie inside [lo, hi]
        let mut alts: Vec<i64> = vec![0, 1, -1, 2, 12, 13, 23, 24, 28, 29, 30, 31, 32, 59, 60, 365, 366, 367, 999, 1000, 86_399, 86_400, -23, -24, -86_399, -86_400];
        for b in [lo, hi] {
            for d in -2i128..=2 {
                if let Ok(v) = i64::try_from(b + d) {
                    alts.push(v);
                }
            }
        }
        let (tmin, tmax): (i64, i64) = match specs[k].1 {
            'y' | 'i' => (i32::MIN as i64, i32::MAX as i64),
            'u' => (0, u32::MAX as i64),
            _ => (0, i64::MAX),
        };
        alts.extend([tmin, tmax, tmin + 1, tmax - 1]);
        for w in alts {
            if w < tmin || w > tmax {
                continue;
            }
            let mut a2 = c.args.clone();
            a2[k] = w;
            cx.extra_evals += 1;
            if let Ok(Ok(_)) = call(c, &a2) {
                if !(lo..=hi).contains(&as_num(w)) {
                    return fail(
                        &format!("{}.message_range_excludes_accepted_value", sig),
                        format!("{}: message {:?} names a range containing every accepted {}", what, msg, mname),
                        format!("{} = {} is accepted (other arguments unchanged) but lies outside {}..={}", mname, w, lo, hi),
                    );
                }
            }
        }
        Verdict::Pass
    }
}

#[derive(Debug, Clone, Hash, Serialize, Deserialize)]
pub struct EdgeCase {
    pub recv: Inst,
    pub off: i32,
    pub field: u8,
    pub v: i64,
}

/// DateTime setters on receivers on the outermost days of the range: "never panic" has no
/// exception there. Valid local result and representable instant => Ok with that value; valid
/// local result whose instant (local - offset) is not representable => OutOfRange.
pub struct SettersAtRangeEnds;
impl Prop for SettersAtRangeEnds {
    type Case = EdgeCase;
    const NAME: &'static str = "C15.setters_at_range_ends";
    const BYTES: usize = 64;
    fn gen(u: &mut Unstructured<'_>) -> arbitrary::Result<EdgeCase> {
        let (recv, off) = gen::edge_inst_off(u)?;
        let lf = tl::fields(recv.i() + off as i128 * tl::NS);
        let field = u.int_in_range(0..=9u8)?;
        let v = match field {
            0 => lf.year + u.range_i64(-1, 1)?,
            1 => (lf.month as i64 + u.range_i64(-2, 2)?).clamp(0, 13),
            2 => (lf.dom as i64 + u.range_i64(-3, 3)?).clamp(0, 32),
            3 => (cal::day_of_year(lf.day) as i64 + u.range_i64(-3, 3)?).clamp(0, 367),
            4 => u.range_i64(0, 24)?,
            5 | 6 => u.range_i64(0, 60)?,
            7 => u.range_i64(0, 1000)?,
            8 => u.range_i64(0, 1_000_000)?,
            _ => u.range_i64(0, 1_000_000_000)?,
        };
        Ok(EdgeCase { recv, off, field, v })
    }
    fn check(c: &EdgeCase, cx: &mut Cx) -> Verdict {
        if !c.recv.valid() || c.off.unsigned_abs() > 86_399 || c.field > 9 || (c.field == 0 && i32::try_from(c.v).is_err()) || (c.field != 0 && u32::try_from(c.v).is_err()) {
            return Verdict::Skip("malformed case");
        }
        let utc = c.recv.i();
        let local = utc + c.off as i128 * tl::NS;
        if !tl::representable(local) {
            return Verdict::Skip("receiver whose local reading is not representable cannot be built");
        }
        let want_local = c09::model(local, &c09::Op::Set { field: c.field, v: c.v });
        let want: Option<i128> = want_local.and_then(|wl| {
            let w = wl - c.off as i128 * tl::NS;
            if tl::representable(w) && tl::representable(wl) {
                Some(w)
            } else {
                None
            }
        });
        if want_local.is_some() && want.is_none() {
            cx.nt("valid_local_result_but_unrepresentable_instant");
        }
        if c.off != 0 {
            cx.nt("offset_receiver_on_an_outermost_day");
        }
        let name = DT_SETTERS[c.field as usize].0;
        let what = format!("DateTime::{}({}) on {} [offset {}]", name, c.v, fmt_instant(utc), c.off);
        let r = catch(|| -> Result<i128, AstrolabeError> {
            let d = mk_dt_off(utc, c.off);
            let r = match c.field {
                0 => d.set_year(c.v as i32)?,
                1 => d.set_month(c.v as u32)?,
                2 => d.set_day(c.v as u32)?,
                3 => d.set_day_of_year(c.v as u32)?,
                4 => d.set_hour(c.v as u32)?,
                5 => d.set_minute(c.v as u32)?,
                6 => d.set_second(c.v as u32)?,
                7 => d.set_milli(c.v as u32)?,
                8 => d.set_micro(c.v as u32)?,
                _ => d.set_nano(c.v as u32)?,
            };
            Ok(rd_dt(&r))
        });
        match (want, r) {
            (_, Err(p)) => fail(&format!("c15.{}.panic_at_range_end", name), format!("{} returns a Result", what), p.short()),
            (Some(w), Ok(Ok(i))) => {
                if i != w {
                    return fail(&format!("c15.{}.wrong_value_at_range_end", name), format!("{} = {}", what, fmt_instant(w)), fmt_instant(i));
                }
                Verdict::Pass
            }
            (Some(w), Ok(Err(e))) => fail(&format!("c15.{}.rejects_valid_at_range_end", name), format!("{} = Ok({})", what, fmt_instant(w)), format!("Err({})", e)),
            (None, Ok(Ok(i))) => fail(&format!("c15.{}.accepts_unrepresentable", name), format!("{} = Err(OutOfRange)", what), format!("Ok({})", fmt_instant(i))),
            (None, Ok(Err(e))) => {
                if !matches!(e, AstrolabeError::OutOfRange(_)) {
                    return fail(&format!("c15.{}.wrong_error_kind", name), "OutOfRange", format!("{:?}", e));
                }
                // where the message states a range, the range contains every accepted value and
                // excludes the rejected one - also when the value is the resulting instant
                // ("nanoseconds": nanoseconds since 0001-01-01T00:00:00Z, the crate's time line)
                let msg = e.to_string();
                if let Some((mname, lo, hi)) = parse_range_message(&msg) {
                    if mname == "nanoseconds" {
                        if let Some(wl) = want_local {
                            cx.nt("instant_range_in_the_message_checked");
                            let rejected = wl - c.off as i128 * tl::NS;
                            let (first, last) = (cal::MIN_DAY as i128 * tl::DAY_NS, (cal::MAX_DAY as i128 + 1) * tl::DAY_NS - 1);
                            if (lo..=hi).contains(&rejected) {
                                return fail(&format!("c15.{}.message_range_contains_rejected_value", name), format!("{}: message {:?} names a range that excludes the rejected instant {} ns", what, msg, rejected), "the stated range contains it".to_string());
                            }
                            if lo > first || hi < last {
                                return fail(
                                    &format!("c15.{}.message_range_excludes_accepted_value", name),
                                    format!("{}: message {:?} names a range containing every accepted instant ({}..={} ns since 0001-01-01Z are representable and reachable through this setter)", what, msg, first, last),
                                    format!("{}..={}", lo, hi),
                                );
                            }
                        }
                    } else if name.strip_prefix("set_") == Some(mname.as_str()) || (mname == "day_of_year" && c.field == 3) {
                        cx.label("argument_range_in_the_message_checked");
                        if (lo..=hi).contains(&(c.v as i128)) {
                            return fail(&format!("c15.{}.message_range_contains_rejected_value", name), format!("{}: message {:?} names a range that excludes the rejected {}", what, msg, c.v), "the stated range contains it".to_string());
                        }
                    }
                }
                Verdict::Pass
            }
        }
    }
}

pub fn run(env: &mut Env) {
    let t = env.thorough();
    env.run_random::<Ctors>(if t { 40_000_000 } else { 4_000_000 });
    env.run_random::<SettersAtRangeEnds>(if t { 5_000_000 } else { 500_000 });
}
