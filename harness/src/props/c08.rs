//! C08 — clock time is arithmetic modulo 24 h with one canonical value per time of day.
use crate::engine::*;
use crate::gen::{self, Inst};
use crate::model::{cal, tl};
use crate::obs::*;
use arbitrary::Unstructured;
use astrolabe::errors::AstrolabeError;
use astrolabe::{Offset, OffsetUtilities, Time, TimeUtilities};
use serde::{Deserialize, Serialize};
use std::time::Duration;

pub const DAY: i128 = 86_400_000_000_000;

#[derive(Debug, Clone, Hash, Serialize, Deserialize)]
pub enum Op {
    /// unit 1 = hours … 6 = nanos
    Unit { unit: u8, count: u32, sub: bool },
    TimeOp { ns: u64, sub: bool, assign: bool },
    Dur { secs: u64, nanos: u32, sub: bool, assign: bool },
    /// field 0 hour, 1 minute, 2 second, 3 milli, 4 micro, 5 nano
    Set { field: u8, v: u32 },
    /// 0 hour … 5 nano
    Clear { until: u8 },
    SetOffset { off: i32 },
    AsOffset { off: i32 },
    FromDateTime { i: Inst, off: i32 },
    FormatParse,
    /// an operand computed at run time from the current value so that the result lands exactly on
    /// 00:00:00 + delta ns: kind 0 = Time + Time, 1 = Time + Duration, 2 = Time - Time (operand = the
    /// value itself + delta), 3 = add_nanos/add_seconds when the complement fits
    Complement { kind: u8, delta: i8 },
    /// Time::parse of a late time of day with several fraction fields of different widths (their
    /// sum is what the parser adds up): Ok values must still lie inside the day
    ParseFractions { secs: u32, widths: Vec<u8>, nines: bool },
}

#[derive(Debug, Clone, Hash, Serialize, Deserialize)]
pub struct Case {
    pub start_ns: u64,
    pub start_off: i32,
    pub ops: Vec<Op>,
}

#[derive(Clone, Copy, Debug, PartialEq)]
struct Model {
    ns: i128,
    off: i32,
}

impl Model {
    fn local(&self) -> i128 {
        (self.ns + self.off as i128 * tl::NS).rem_euclid(DAY)
    }
    fn set_local(&mut self, l: i128) {
        self.ns = (l - self.off as i128 * tl::NS).rem_euclid(DAY);
    }
}

fn gen_op(u: &mut Unstructured) -> arbitrary::Result<Op> {
    let k = u.below(16)?;
    Ok(match k {
        0..=4 => Op::Unit { unit: 1 + u.below(6)? as u8, count: gen::count(u)?, sub: u.coin(1, 2)? },
        5 | 6 => Op::TimeOp { ns: gen::day_ns(u)? as u64, sub: u.coin(1, 2)?, assign: u.coin(1, 3)? },
        7 | 8 => {
            let secs = match u.below(6)? {
                0 => u.int_in_range(0..=200_000u64)?,
                1 => *u.choose(&[0u64, 86_399, 86_400, 86_401, u64::MAX, u64::MAX / 1_000_000_000, u64::MAX / 1_000_000_000 + 1, 18_446_744_073, 18_446_744_074, 1 << 63])?,
                2 => u.int_in_range(0..=u64::MAX)?,
                _ => u.int_in_range(0..=86_400u64)?,
            };
            Op::Dur { secs, nanos: u.int_in_range(0..=999_999_999u32)?, sub: u.coin(1, 2)?, assign: u.coin(1, 3)? }
        }
        9 | 10 => {
            let field = u.below(6)? as u8;
            let max = [23u32, 59, 59, 999, 999_999, 999_999_999][field as usize];
            let v = match u.below(5)? {
                0 => *u.choose(&[0, 1, max - 1, max])?,
                1 => *u.choose(&[max + 1, u32::MAX, 1 << 31])?,
                _ => u.int_in_range(0..=max)?,
            };
            Op::Set { field, v }
        }
        11 => Op::Clear { until: u.below(6)? as u8 },
        12 => Op::SetOffset { off: gen::offset(u)? },
        13 => Op::AsOffset { off: gen::offset(u)? },
        14 => Op::FromDateTime { i: gen::inst(u, 2)?, off: gen::offset(u)? },
        15 if u.coin(1, 2)? => Op::Complement { kind: u.below(4)? as u8, delta: *u.choose(&[0i8, 0, 1, -1, 2])? },
        15 if u.coin(1, 2)? => {
            let n = 1 + u.below(4)? as usize;
            let mut widths = Vec::new();
            for _ in 0..n {
                widths.push(1 + u.below(5)? as u8);
            }
            Op::ParseFractions { secs: if u.coin(2, 3)? { 86_399 } else { u.int_in_range(0..=86_399u32)? }, widths, nines: u.coin(2, 3)? }
        }
        _ => Op::FormatParse,
    })
}

/// applies the op to the model; Ok(true) = state replaced/changed as documented,
/// Ok(false) = op must be refused by the implementation (setter out of range)
fn model_apply(m: &mut Model, op: &Op) -> Option<bool> {
    match op {
        Op::Unit { unit, count, sub } => {
            let amt = *count as i128 * tl::unit_ns(*unit);
            m.ns = if *sub { (m.ns - amt).rem_euclid(DAY) } else { (m.ns + amt).rem_euclid(DAY) };
        }
        Op::TimeOp { ns, sub, .. } => {
            let amt = *ns as i128;
            m.ns = if *sub { (m.ns - amt).rem_euclid(DAY) } else { (m.ns + amt).rem_euclid(DAY) };
        }
        Op::Dur { secs, nanos, sub, .. } => {
            let amt = *secs as i128 * tl::NS + *nanos as i128;
            m.ns = if *sub { (m.ns - amt).rem_euclid(DAY) } else { (m.ns + amt).rem_euclid(DAY) };
        }
        Op::Set { field, v } => {
            let max = [23u32, 59, 59, 999, 999_999, 999_999_999][*field as usize];
            if *v > max {
                return Some(false);
            }
            let l = m.local();
            let v = *v as i128;
            let sub = l % tl::NS;
            let l2 = match field {
                0 => v * 3600 * tl::NS + l % (3600 * tl::NS),
                1 => l - (l % (3600 * tl::NS) - l % (60 * tl::NS)) + v * 60 * tl::NS,
                2 => l - (l % (60 * tl::NS) - sub) + v * tl::NS,
                3 => l - sub + v * 1_000_000 + sub % 1_000_000,
                4 => l - sub + v * 1_000 + sub % 1_000,
                _ => l - sub + v,
            };
            m.set_local(l2);
        }
        Op::Clear { until } => {
            let l = m.local();
            let l2 = match until {
                0 => 0,
                1 => l - l % (3600 * tl::NS),
                2 => l - l % (60 * tl::NS),
                3 => l - l % tl::NS,
                4 => l - l % 1_000_000,
                _ => l - l % 1_000,
            };
            m.set_local(l2);
        }
        Op::SetOffset { off } => m.off = *off,
        Op::AsOffset { off } => {
            if m.off != 0 {
                return None; // unspecified: as_offset on a value that already carries an offset
            }
            m.ns = (m.ns - *off as i128 * tl::NS).rem_euclid(DAY);
            m.off = *off;
        }
        Op::FromDateTime { i, off } => {
            m.ns = i.ns as i128;
            m.off = *off;
        }
        Op::FormatParse => {}
        Op::Complement { .. } => {} // resolved into a concrete operation before it gets here
        Op::ParseFractions { .. } => {} // the resulting value is adopted from the implementation
    }
    Some(true)
}

const PATTERN: &str = "HH:mm:ss.nnnnn xxxxx";

fn impl_apply(t: Time, op: &Op) -> Result<Time, AstrolabeError> {
    Ok(match op {
        Op::Unit { unit, count, sub } => match (*unit, *sub) {
            (1, false) => t.add_hours(*count),
            (1, true) => t.sub_hours(*count),
            (2, false) => t.add_minutes(*count),
            (2, true) => t.sub_minutes(*count),
            (3, false) => t.add_seconds(*count),
            (3, true) => t.sub_seconds(*count),
            (4, false) => t.add_millis(*count),
            (4, true) => t.sub_millis(*count),
            (5, false) => t.add_micros(*count),
            (5, true) => t.sub_micros(*count),
            (_, false) => t.add_nanos(*count),
            (_, true) => t.sub_nanos(*count),
        },
        Op::TimeOp { ns, sub, assign } => {
            let r = Time::from_nanos(*ns)?;
            match (*sub, *assign) {
                (false, false) => t + r,
                (true, false) => t - r,
                (false, true) => {
                    let mut x = t;
                    x += r;
                    x
                }
                (true, true) => {
                    let mut x = t;
                    x -= r;
                    x
                }
            }
        }
        Op::Dur { secs, nanos, sub, assign } => {
            let d = Duration::new(*secs, *nanos);
            match (*sub, *assign) {
                (false, false) => t + d,
                (true, false) => t - d,
                (false, true) => {
                    let mut x = t;
                    x += d;
                    x
                }
                (true, true) => {
                    let mut x = t;
                    x -= d;
                    x
                }
            }
        }
        Op::Set { field, v } => match field {
            0 => t.set_hour(*v)?,
            1 => t.set_minute(*v)?,
            2 => t.set_second(*v)?,
            3 => t.set_milli(*v)?,
            4 => t.set_micro(*v)?,
            _ => t.set_nano(*v)?,
        },
        Op::Clear { until } => match until {
            0 => t.clear_until_hour(),
            1 => t.clear_until_minute(),
            2 => t.clear_until_second(),
            3 => t.clear_until_milli(),
            4 => t.clear_until_micro(),
            _ => t.clear_until_nano(),
        },
        Op::SetOffset { off } => t.set_offset(Offset::Fixed(*off)),
        Op::AsOffset { off } => t.as_offset(Offset::Fixed(*off)),
        Op::FromDateTime { i, off } => Time::from(mk_dt_off_any(i.i(), *off)),
        Op::FormatParse => Time::parse(&t.format(PATTERN), PATTERN)?,
        Op::Complement { .. } => t,
        Op::ParseFractions { secs, widths, nines } => {
            // adjacent fields of one symbol would merge into one run: separate them with a space
            let mut pattern = String::from("HH:mm:ss");
            let mut text = format!("{:02}:{:02}:{:02}", secs / 3600, secs / 60 % 60, secs % 60);
            for (k, w) in widths.iter().enumerate() {
                let digits = [1usize, 2, 3, 6, 9][(*w as usize - 1).min(4)];
                pattern.push(' ');
                text.push(' ');
                for _ in 0..*w {
                    pattern.push('n');
                }
                for d in 0..digits {
                    text.push(if *nines { '9' } else { (b'0' + ((k * 7 + d * 3 + *secs as usize) % 10) as u8) as char });
                }
            }
            Time::parse(&text, &pattern)?
        }
    })
}

fn op_name(op: &Op) -> &'static str {
    match op {
        Op::Unit { sub: false, .. } => "add_unit",
        Op::Unit { sub: true, .. } => "sub_unit",
        Op::TimeOp { sub: false, .. } => "time_plus_time",
        Op::TimeOp { sub: true, .. } => "time_minus_time",
        Op::Dur { sub: false, .. } => "time_plus_duration",
        Op::Dur { sub: true, .. } => "time_minus_duration",
        Op::Set { .. } => "set",
        Op::Clear { .. } => "clear",
        Op::SetOffset { .. } => "set_offset",
        Op::AsOffset { .. } => "as_offset",
        Op::FromDateTime { .. } => "from_datetime",
        Op::FormatParse => "format_parse",
        Op::Complement { .. } => "complement",
        Op::ParseFractions { .. } => "parse_fractions",
    }
}

/// invariant after every step
fn invariant(t: &Time, m: &Model, step: usize, op: &str) -> Option<Verdict> {
    let r = catch(|| {
        let fresh = Time::from_nanos(m.ns as u64).ok();
        (
            t.as_nanos(),
            t.get_offset(),
            t.as_hms(),
            t.as_seconds(),
            (t.hour(), t.minute(), t.second(), t.milli(), t.micro(), t.nano()),
            fresh.map(|f| (*t == f, f == *t, t.cmp(&f))),
        )
    });
    let (ns, off, hms, secs, local, eq) = match r {
        Ok(v) => v,
        Err(p) => return Some(fail(&format!("c08.{}.observers_panic", op), format!("step {}: observers return", step), p.short())),
    };
    let pre = format!("step {} ({})", step, op);
    if ns as i128 >= DAY {
        return Some(fail(&format!("c08.{}.not_in_day", op), format!("{}: as_nanos() < 86_400e9 (model {})", pre, m.ns), format!("{}", ns)));
    }
    if ns as i128 != m.ns {
        return Some(fail(&format!("c08.{}.wrong_time", op), format!("{}: as_nanos() = {}", pre, m.ns), format!("{}", ns)));
    }
    if off != Offset::Fixed(m.off) {
        return Some(fail(&format!("c08.{}.offset", op), format!("{}: offset {}", pre, m.off), format!("{:?}", off)));
    }
    let s = (m.ns / tl::NS) as u32;
    if hms != (s / 3600, s / 60 % 60, s % 60) || secs != s {
        return Some(fail(&format!("c08.{}.as_hms", op), format!("{}: as_hms/as_seconds of {} s", pre, s), format!("{:?} / {}", hms, secs)));
    }
    let l = m.local();
    let ls = (l / tl::NS) as u32;
    let sub = (l % tl::NS) as u32;
    let want = (ls / 3600, ls / 60 % 60, ls % 60, sub / 1_000_000, sub / 1_000, sub);
    if local != want {
        return Some(fail(&format!("c08.{}.local_fields", op), format!("{}: local getters {:?}", pre, want), format!("{:?}", local)));
    }
    if eq != Some((true, true, std::cmp::Ordering::Equal)) {
        return Some(fail(&format!("c08.{}.equality", op), format!("{}: equal to Time::from_nanos({})", pre, m.ns), format!("{:?}", eq)));
    }
    None
}

fn run_history(c: &Case, cx: &mut Cx) -> Verdict {
    if c.start_ns as i128 >= DAY || c.start_off.unsigned_abs() > 86_399 || c.ops.len() > 64 {
        return Verdict::Skip("malformed case");
    }
    let mut m = Model { ns: c.start_ns as i128, off: c.start_off };
    let mut t = mk_time(c.start_ns).set_offset(Offset::Fixed(c.start_off));
    if let Some(v) = invariant(&t, &m, 0, "start") {
        return v;
    }
    for (i, op) in c.ops.iter().enumerate() {
        // a Complement is turned into a concrete operation from the current reference state
        let resolved: Op;
        let op = match op {
            Op::Complement { kind, delta } => {
                cx.nt("operand_chosen_to_land_exactly_on_midnight");
                let amount = (*delta as i128 - m.ns).rem_euclid(DAY);
                resolved = match kind {
                    0 => Op::TimeOp { ns: amount as u64, sub: false, assign: false },
                    1 => Op::Dur { secs: (amount / tl::NS) as u64, nanos: (amount % tl::NS) as u32, sub: false, assign: true },
                    2 => Op::TimeOp { ns: (m.ns - *delta as i128).rem_euclid(DAY) as u64, sub: true, assign: true },
                    _ => {
                        if amount <= u32::MAX as i128 {
                            Op::Unit { unit: 6, count: amount as u32, sub: false }
                        } else if amount % tl::NS == 0 {
                            Op::Unit { unit: 3, count: (amount / tl::NS) as u32, sub: false }
                        } else if amount % 1_000 == 0 && amount / 1_000 <= u32::MAX as i128 {
                            Op::Unit { unit: 5, count: (amount / 1_000) as u32, sub: false }
                        } else {
                            Op::TimeOp { ns: amount as u64, sub: false, assign: true }
                        }
                    }
                };
                &resolved
            }
            other => other,
        };
        // malformed replays
        match op {
            Op::Unit { unit, .. } if !(1..=6).contains(unit) => return Verdict::Skip("malformed case"),
            Op::TimeOp { ns, .. } if *ns as i128 >= DAY => return Verdict::Skip("malformed case"),
            Op::Dur { nanos, .. } if *nanos > 999_999_999 => return Verdict::Skip("malformed case"),
            Op::Set { field, .. } if *field > 5 => return Verdict::Skip("malformed case"),
            Op::Clear { until } if *until > 5 => return Verdict::Skip("malformed case"),
            Op::ParseFractions { secs, widths, .. } if *secs > 86_399 || widths.len() > 8 || widths.iter().any(|w| *w == 0 || *w > 5) => return Verdict::Skip("malformed case"),
            Op::SetOffset { off } | Op::AsOffset { off } if off.unsigned_abs() > 86_399 => return Verdict::Skip("malformed case"),
            Op::FromDateTime { i, off } if !i.valid() || off.unsigned_abs() > 86_399 || i.day < cal::MIN_DAY + 2 || i.day > cal::MAX_DAY - 2 => {
                return Verdict::Skip("malformed case")
            }
            _ => {}
        }
        let before = m;
        let name = op_name(op);
        let expect = match model_apply(&mut m, op) {
            None => {
                cx.label("unspecified_as_offset_on_offset_value_skipped");
                m = before;
                continue;
            }
            Some(e) => e,
        };
        // classification
        match op {
            Op::Unit { unit, count, sub } => {
                let amt = *count as i128 * tl::unit_ns(*unit);
                if (!*sub && before.ns + amt >= DAY) || (*sub && before.ns - amt < 0) {
                    cx.nt("wraps_midnight");
                }
                if amt >= 1i128 << 63 {
                    cx.nt("amount>=2^63ns");
                }
            }
            Op::TimeOp { ns, sub, .. } => {
                if !*sub && before.ns + *ns as i128 >= DAY {
                    cx.nt("operands_sum>=24h");
                }
                if *sub && before.ns - (*ns as i128) < 0 {
                    cx.nt("subtraction_below_zero");
                }
            }
            Op::Dur { secs, sub, .. } => {
                if *secs >= 86_400 {
                    cx.nt("duration>=24h");
                }
                let amt = *secs as i128 * tl::NS;
                if (!*sub && before.ns + amt >= DAY) || (*sub && before.ns - amt < 0) {
                    cx.nt("wraps_midnight");
                }
            }
            Op::FromDateTime { i, .. } => {
                if i.day < 0 {
                    cx.nt("from_bc_datetime");
                }
            }
            Op::Set { .. } | Op::Clear { .. } => {
                if before.off != 0 {
                    cx.nt("set_or_clear_with_offset");
                }
            }
            _ => {}
        }
        cx.label(name);
        let r = catch(|| impl_apply(t, op));
        match r {
            Err(p) => return fail(&format!("c08.{}.panic", name), format!("step {} {:?} on {} ns [{}] returns ({} ns)", i + 1, op, before.ns, before.off, m.ns), p.short()),
            Ok(Err(e)) => {
                if matches!(op, Op::ParseFractions { .. }) {
                    // a refusal (e.g. the fractions add up beyond the day) leaves the value unchanged
                    cx.label("parse_fractions_refused");
                    m = before;
                    continue;
                }
                if matches!(op, Op::FormatParse) {
                    // parse(format(..)) is the subject of C12; a refusal leaves the value unchanged
                    cx.label("format_parse_refused");
                    m = before;
                    continue;
                }
                if expect {
                    return fail(&format!("c08.{}.refused", name), format!("step {} {:?} is accepted", i + 1, op), format!("Err({})", e));
                }
                if !matches!(e, AstrolabeError::OutOfRange(_)) {
                    return fail(&format!("c08.{}.wrong_error", name), "Err(OutOfRange)", format!("{:?}", e));
                }
                m = before;
            }
            Ok(Ok(nt)) => {
                if !expect {
                    return fail(&format!("c08.{}.accepts_out_of_range", name), format!("step {} {:?} is refused", i + 1, op), format!("Ok({} ns)", nt.as_nanos()));
                }
                t = nt;
                if let Op::ParseFractions { .. } = op {
                    // how several fraction fields combine is not specified: only "inside the day, offset 0"
                    cx.nt("parse_with_several_fraction_fields");
                    if t.as_nanos() as i128 >= DAY {
                        return fail("c08.parse_fractions.not_in_day", format!("step {} {:?}: an Ok value lies inside the day", i + 1, op), format!("{} ns", t.as_nanos()));
                    }
                    m.ns = t.as_nanos() as i128;
                    m.off = match t.get_offset() {
                        Offset::Fixed(o) => o,
                        _ => 0,
                    };
                }
                if let Op::FromDateTime { .. } = op {
                    // which offset a Time converted from a DateTime carries is not stated by the
                    // property: adopt the implementation's choice (it must be a valid offset)
                    match t.get_offset() {
                        Offset::Fixed(o) if o.abs() <= 86_399 => m.off = o,
                        other => return fail("c08.from_datetime.invalid_offset", "a fixed offset within +-23:59:59", format!("{:?}", other)),
                    }
                }
            }
        }
        if let Some(v) = invariant(&t, &m, i + 1, name) {
            return match v {
                Verdict::Fail(mut f) => {
                    f.expected = format!("{} after {:?} on {} ns [{}]", f.expected, op, before.ns, before.off);
                    Verdict::Fail(f)
                }
                o => o,
            };
        }
    }
    Verdict::Pass
}

pub struct History;
impl Prop for History {
    type Case = Case;
    const NAME: &'static str = "C08.history";
    const BYTES: usize = 400;
    fn gen(u: &mut Unstructured<'_>) -> arbitrary::Result<Case> {
        let start_ns = gen::day_ns(u)? as u64;
        let start_off = if u.coin(1, 2)? { 0 } else { gen::offset(u)? };
        let n = 1 + u.below(12)? as usize;
        let mut ops = Vec::with_capacity(n);
        for _ in 0..n {
            ops.push(gen_op(u)?);
        }
        Ok(Case { start_ns, start_off, ops })
    }
    fn check(c: &Case, cx: &mut Cx) -> Verdict {
        cx.extra_evals = c.ops.len() as u64;
        run_history(c, cx)
    }
}

#[derive(Debug, Clone, Hash, Serialize, Deserialize)]
pub struct CtorCase {
    pub h: u32,
    pub m: u32,
    pub s: u32,
    pub secs: u32,
    pub nanos: u64,
}

pub struct Ctor;
impl Prop for Ctor {
    type Case = CtorCase;
    const NAME: &'static str = "C08.constructors";
    const BYTES: usize = 64;
    fn gen(u: &mut Unstructured<'_>) -> arbitrary::Result<CtorCase> {
        fn small(u: &mut Unstructured, max: u32) -> arbitrary::Result<u32> {
            Ok(match u.below(6)? {
                0 => *u.choose(&[0, 1, max - 1, max, max + 1])?,
                1 => *u.choose(&[u32::MAX, 1 << 31, (1 << 31) - 1, 1_193_046, 71_582_788, 4_294_967_295 / 3600 + 1])?,
                _ => u.int_in_range(0..=max + 2)?,
            })
        }
        let secs = match u.below(5)? {
            0 => *u.choose(&[0u32, 1, 86_399, 86_400, 86_401, u32::MAX, 1 << 31])?,
            1 => u.int_in_range(0..=u32::MAX)?,
            _ => u.int_in_range(0..=90_000u32)?,
        };
        let nanos = match u.below(5)? {
            0 => *u.choose(&[0u64, 1, 86_399_999_999_999, 86_400_000_000_000, 86_400_000_000_001, u64::MAX, 1 << 63, 1 << 32])?,
            1 => u.int_in_range(0..=u64::MAX)?,
            // values whose second count is in range only after truncation to 32 bits
            2 => (u.int_in_range(1..=4u64)? << 32).wrapping_mul(1_000_000_000).wrapping_add(u.int_in_range(0..=90_000u64)? * 1_000_000_000 + u.int_in_range(0..=999_999_999u64)?),
            _ => u.int_in_range(0..=90_000_000_000_000u64)?,
        };
        Ok(CtorCase { h: small(u, 23)?, m: small(u, 59)?, s: small(u, 59)?, secs, nanos })
    }
    fn check(c: &CtorCase, cx: &mut Cx) -> Verdict {
        let hms_ok = c.h <= 23 && c.m <= 59 && c.s <= 59;
        if !hms_ok && (c.h <= 24 && c.m <= 60 && c.s <= 60) {
            cx.nt("one_step_outside");
        }
        if c.h >= 1 << 31 || c.m >= 1 << 31 || c.s >= 1 << 31 {
            cx.nt("argument>=2^31");
        }
        if c.secs == 86_399 || c.secs == 86_400 || c.nanos == 86_399_999_999_999 || c.nanos == 86_400_000_000_000 {
            cx.nt("day_edge");
        }
        let r = catch(|| (Time::from_hms(c.h, c.m, c.s).map(|t| t.as_nanos()), Time::from_seconds(c.secs).map(|t| t.as_nanos()), Time::from_nanos(c.nanos).map(|t| t.as_nanos())));
        let (a, b, d) = match r {
            Ok(v) => v,
            Err(p) => return fail("c08.ctor_panic", "constructors return a Result", p.short()),
        };
        let chk = |name: &str, ok: bool, want: u64, got: Result<u64, AstrolabeError>| -> Option<Verdict> {
            match got {
                Ok(v) if !ok => Some(fail(&format!("c08.{}_accepts_outside_day", name), format!("{} refused for {:?}", name, c), format!("Ok({})", v))),
                Ok(v) if v != want => Some(fail(&format!("c08.{}_wrong_value", name), format!("{} = {}", name, want), format!("{}", v))),
                Err(e) if ok => Some(fail(&format!("c08.{}_rejects_valid", name), format!("{} accepted for {:?}", name, c), format!("Err({})", e))),
                Err(AstrolabeError::InvalidFormat(e)) => Some(fail(&format!("c08.{}_wrong_error", name), "OutOfRange", format!("{:?}", e))),
                _ => None,
            }
        };
        if let Some(v) = chk("from_hms", hms_ok, (c.h as u64 * 3600 + c.m as u64 * 60 + c.s as u64).wrapping_mul(1_000_000_000), a) {
            return v;
        }
        if let Some(v) = chk("from_seconds", c.secs < 86_400, c.secs as u64 * 1_000_000_000, b) {
            return v;
        }
        if let Some(v) = chk("from_nanos", (c.nanos as i128) < DAY, c.nanos, d) {
            return v;
        }
        Verdict::Pass
    }
}

/// one representative argument list per operation kind, for the all-seconds enumeration
fn single_ops() -> Vec<Op> {
    let mut v = Vec::new();
    for unit in 1..=6u8 {
        for &count in &[1u32, 25, 86_401, 5_124_096, 307_445_735, u32::MAX] {
            for sub in [false, true] {
                v.push(Op::Unit { unit, count, sub });
            }
        }
    }
    for &ns in &[1u64, 43_200_000_000_000, 86_399_999_999_999] {
        for sub in [false, true] {
            v.push(Op::TimeOp { ns, sub, assign: sub });
        }
    }
    for &(secs, nanos) in &[(0u64, 1u32), (86_399, 999_999_999), (86_400, 0), (1 << 40, 5), (u64::MAX, 999_999_999)] {
        for sub in [false, true] {
            v.push(Op::Dur { secs, nanos, sub, assign: !sub });
        }
    }
    for until in 0..6u8 {
        v.push(Op::Clear { until });
    }
    for field in 0..6u8 {
        v.push(Op::Set { field, v: 7 });
    }
    v
}

pub fn run(env: &mut Env) {
    let t = env.thorough();
    env.run_random::<Ctor>(if t { 3_000_000 } else { 1_000_000 });
    env.run_random::<History>(if t { 5_000_000 } else { 1_000_000 });
    // every second of the day x sub-second boundary x every single operation (thorough);
    // quick: every 97th second
    let ops = std::sync::Arc::new(single_ops());
    let stride: u64 = if t { 1 } else { 97 };
    let o2 = ops.clone();
    env.run_enum::<History, _>(86_400 / stride + 1, move |i| {
        let sec = (i * stride).min(86_399);
        let ops = o2.clone();
        let offs = [0i32, 3_600, -34_200];
        [0u64, 1, 500_000_000, 999_999_999].into_iter().flat_map(move |sub| {
            let ops = ops.clone();
            let start = sec * 1_000_000_000 + sub;
            (0..ops.len()).map(move |k| Case { start_ns: start, start_off: offs[(k + sec as usize) % 3], ops: vec![ops[k].clone()] })
        })
    });
    if !t {
        // quick: every second of the day all the same, with the largest counts of every unit and the
        // operand that brings the time exactly to 24:00 (a relation between receiver and argument
        // that no list of boundary values contains)
        env.run_enum::<History, _>(86_400, move |sec| {
            [500_000_000u64, 999_999_999, 300_000_000].into_iter().flat_map(move |sub| {
                let start = sec * 1_000_000_000 + sub;
                let mut v: Vec<Case> = Vec::new();
                for unit in 1..=6u8 {
                    for count in [u32::MAX, u32::MAX - 167_295, 1 << 31] {
                        v.push(Case { start_ns: start, start_off: if sec % 2 == 0 { 0 } else { -34_200 }, ops: vec![Op::Unit { unit, count, sub: (sec + unit as u64) % 2 == 0 }] });
                    }
                }
                let rest = 86_400_000_000_000 - start;
                for (sub_op, assign) in [(false, false), (false, true)] {
                    v.push(Case { start_ns: start, start_off: 0, ops: vec![Op::TimeOp { ns: rest.min(86_399_999_999_999), sub: sub_op, assign }] });
                }
                v.push(Case { start_ns: start, start_off: 3_600, ops: vec![Op::TimeOp { ns: start, sub: true, assign: sec % 2 == 0 }] });
                v.into_iter()
            })
        });
        env.exhaustive_parts.push("C08 (quick): every second of the day x 3 sub-second parts x the largest counts of the six units, and the Time operand that completes / cancels the receiver exactly".into());
    }
    env.exhaustive_parts.push(format!(
        "C08: every {} second of the day x sub-second in {{0, 1, 5e8, 999999999}} x {} single operations",
        if t { "".to_string() } else { format!("{}th", stride) },
        ops.len()
    ));
}
