//! C11 — format renders every documented symbol exactly as the documented table says.
use crate::engine::*;
use crate::gen::{self, Inst};
use crate::model::fmt::{self, Kind, Tok};
use crate::model::{cal, tl};
use crate::obs::*;
use arbitrary::Unstructured;
use astrolabe::{Offset, OffsetUtilities};
use serde::{Deserialize, Serialize};

#[derive(Debug, Clone, Hash, Serialize, Deserialize)]
pub struct Case {
    pub kind: Kind,
    pub v: Inst,
    pub off: i32,
    pub toks: Vec<Tok>,
}

const LIT_CHARS: &[char] = &[' ', '-', '/', ':', '.', ',', '_', 'T', '0', '1', '2', '3', '4', '5', '6', '7', '8', '9', 'é', '日', '(', ')', '+'];
const QUOTED_CHARS: &[char] = &['a', 'y', 'M', 'd', 'H', 'h', 'm', 's', 'x', 'X', 'e', 'n', ' ', ':', '\'', 'é', '日', 'o', 'f', 'Z', '1', '-'];

/// any non-ASCII, non-control scalar value (2-, 3- and 4-byte UTF-8), so that nothing in the
/// harness depends on a fixed literal alphabet (e.g. on the low byte of the code point)
pub fn random_non_ascii(u: &mut Unstructured) -> arbitrary::Result<char> {
    loop {
        let cp = match u.below(4)? {
            0 => u.int_in_range(0xA1..=0x7FFu32)?,
            1 | 2 => u.int_in_range(0x800..=0xFFFDu32)?,
            _ => u.int_in_range(0x1_0000..=0x1_FAFFu32)?,
        };
        if let Some(c) = char::from_u32(cp) {
            if !c.is_control() && !c.is_whitespace() {
                return Ok(c);
            }
        }
    }
}

pub fn syms_of(kind: Kind) -> Vec<char> {
    match kind {
        Kind::Date => fmt::DATE_SYMS.to_vec(),
        Kind::Time => fmt::TIME_SYMS.to_vec(),
        Kind::DateTime => fmt::DATE_SYMS.iter().chain(fmt::TIME_SYMS).copied().collect(),
    }
}

/// Patterns as people write them: a date group and/or a clock group in a conventional order with
/// conventional widths, every separator drawn on its own (`HH:mm.ss`, `d/M-yyyy`, `yyyy-MM-dd'T'HH:mm:ssxxx`).
/// The free generator almost never produces five or more tokens of such a shape in a row, and a
/// fast path for "the usual pattern" only ever sees those.
fn gen_idiomatic(u: &mut Unstructured, kind: Kind) -> arbitrary::Result<Vec<Tok>> {
    const SEPS: &[&str] = &[":", ".", "-", "/", " ", ":", "-", ", ", "_", ""];
    let fld = |sym: char, width: usize| Tok::Field { sym, width };
    let mut toks: Vec<Tok> = Vec::new();
    let sep = |u: &mut Unstructured, toks: &mut Vec<Tok>| -> arbitrary::Result<()> {
        let s = *u.choose(SEPS)?;
        if !s.is_empty() {
            toks.push(Tok::Lit(s.to_string()));
        }
        Ok(())
    };
    if kind != Kind::Time {
        let y = fld('y', *u.choose(&[4usize, 4, 4, 2, 1, 5])?);
        let m = fld('M', *u.choose(&[2usize, 2, 2, 1, 3, 4])?);
        let d = fld('d', *u.choose(&[2usize, 2, 1])?);
        let order = match u.below(4)? {
            0 | 1 => [y, m, d],
            2 => [d, m, y],
            _ => [m, d, y],
        };
        for (i, f) in order.into_iter().enumerate() {
            if i > 0 {
                sep(u, &mut toks)?;
            }
            toks.push(f);
        }
        if u.coin(1, 6)? {
            toks.push(Tok::Lit(" ".to_string()));
            toks.push(fld('e', *u.choose(&[3usize, 4, 1])?));
        }
    }
    if kind == Kind::DateTime {
        match u.below(4)? {
            0 => toks.push(Tok::Lit("T".to_string())),
            1 => toks.push(Tok::Quoted("T".to_string())),
            2 => toks.push(Tok::Lit(" ".to_string())),
            _ => toks.push(Tok::Quoted(" at ".to_string())),
        }
    }
    if kind != Kind::Date {
        let twelve = u.coin(1, 4)?;
        toks.push(fld(if twelve { *u.choose(&['h', 'K'])? } else { *u.choose(&['H', 'H', 'H', 'k'])? }, *u.choose(&[2usize, 2, 2, 1])?));
        sep(u, &mut toks)?;
        toks.push(fld('m', *u.choose(&[2usize, 2, 2, 1])?));
        if u.coin(4, 5)? {
            sep(u, &mut toks)?;
            toks.push(fld('s', *u.choose(&[2usize, 2, 2, 1])?));
            if u.coin(1, 3)? {
                sep(u, &mut toks)?;
                toks.push(fld('n', 1 + u.below(5)? as usize));
            }
        }
        if twelve || u.coin(1, 8)? {
            if u.coin(1, 2)? {
                toks.push(Tok::Lit(" ".to_string()));
            }
            toks.push(fld(*u.choose(&['a', 'a', 'b'])?, 1 + u.below(5)? as usize));
        }
        if u.coin(1, 2)? {
            if u.coin(1, 3)? {
                toks.push(Tok::Lit(" ".to_string()));
            }
            toks.push(fld(*u.choose(&['X', 'x'])?, 1 + u.below(5)? as usize));
        }
    }
    // adjacent fields of the same symbol would merge: keep the tokenisation unambiguous
    let mut out: Vec<Tok> = Vec::new();
    for t in toks {
        if let (Some(Tok::Field { sym: a, .. }), Tok::Field { sym: b, .. }) = (out.last(), &t) {
            if a == b {
                out.push(Tok::Lit(":".to_string()));
            }
        }
        if let (Some(Tok::Lit(a)), Tok::Lit(b)) = (out.last().cloned(), &t) {
            out.pop();
            out.push(Tok::Lit(format!("{}{}", a, b)));
            continue;
        }
        out.push(t);
    }
    Ok(out)
}

pub fn gen_tokens(u: &mut Unstructured, kind: Kind, max: usize) -> arbitrary::Result<Vec<Tok>> {
    if max >= 5 && u.coin(1, 6)? {
        return gen_idiomatic(u, kind);
    }
    let syms = syms_of(kind);
    let n = 1 + u.below(max as u64)? as usize;
    let mut toks: Vec<Tok> = Vec::new();
    for _ in 0..n {
        let k = u.below(10)?;
        let tok = match k {
            0..=5 => {
                let sym = *u.choose(&syms)?;
                let width = if u.coin(1, 40)? {
                    // widths at and around the sizes where a length is capped or narrowed
                    (*u.choose(&[15usize, 16, 17, 31, 32, 33, 63, 64, 65, 127, 128, 129, 255, 256, 257, 1023, 1024, 1025, 4096, 65_535, 65_536, 65_537])? as i64 + u.range_i64(-1, 1)?) as usize
                } else if u.coin(1, 6)? {
                    6 + u.below(5)? as usize
                } else {
                    1 + u.below(5)? as usize
                };
                Tok::Field { sym, width }
            }
            6 | 7 => {
                let len = 1 + u.below(3)? as usize;
                let mut s = String::new();
                for _ in 0..len {
                    s.push(if u.coin(1, 40)? {
                        // control characters and noncharacters are literal characters too
                        *u.choose(&['\u{0}', '\u{1}', '\t', '\u{7f}', '\u{85}', '\u{fdd0}', '\u{ffff}', '\u{feff}'])?
                    } else if u.coin(1, 4)? {
                        random_non_ascii(u)?
                    } else {
                        *u.choose(LIT_CHARS)?
                    });
                }
                Tok::Lit(s)
            }
            8 => {
                let len = if u.coin(1, 40)? { *u.choose(&[31usize, 32, 33, 255, 256, 257, 4096, 65_535, 65_536, 65_537])? } else { 1 + u.below(6)? as usize };
                if len > 6 {
                    // long quoted text: one character repeated (keeps the byte budget of the case)
                    let ch = if u.coin(1, 3)? { random_non_ascii(u)? } else { *u.choose(QUOTED_CHARS)? };
                    toks.push(Tok::Quoted(std::iter::repeat(ch).take(len).collect()));
                    continue;
                }
                let mut s = String::new();
                for _ in 0..len {
                    s.push(if u.coin(1, 6)? { random_non_ascii(u)? } else { *u.choose(QUOTED_CHARS)? });
                }
                Tok::Quoted(s)
            }
            _ => Tok::Apostrophe,
        };
        // keep the documented tokenisation unambiguous
        let ok = match (toks.last(), &tok) {
            (Some(Tok::Field { sym: a, .. }), Tok::Field { sym: b, .. }) => a != b,
            (Some(Tok::Lit(_)), Tok::Lit(_)) => false,
            (Some(Tok::Quoted(_)), Tok::Quoted(_) | Tok::Apostrophe) => false,
            (Some(Tok::Apostrophe), Tok::Quoted(_) | Tok::Apostrophe) => false,
            _ => true,
        };
        if ok {
            toks.push(tok);
        }
    }
    if toks.is_empty() {
        toks.push(Tok::Field { sym: syms[0], width: 1 });
    }
    Ok(toks)
}

pub fn gen_value(u: &mut Unstructured, kind: Kind) -> arbitrary::Result<(Inst, i32)> {
    let mut v = gen::inst(u, 2)?;
    let off = match kind {
        Kind::Date => 0,
        _ => gen::offset(u)?,
    };
    // value classes the tables distinguish: hour 0/12, noon/midnight, second boundaries
    if kind != Kind::Date && u.coin(1, 3)? {
        let local_tod: i64 = *u.choose(&[0i64, 43_200, 1, 43_201, 3_600, 46_800, 86_399, 43_199, 39_600, 82_800])?;
        let sub = *u.choose(&[0i64, 0, 0, 1, 500_000_000, 999_999_999, 123_456_789, 100_000_000, 9_000_000])?;
        v.ns = (local_tod - off as i64).rem_euclid(86_400) * 1_000_000_000 + sub;
    }
    // range ends: the outermost days, with the time of day chosen so that both the instant and
    // its local reading stay representable
    if u.ratio(1, 12)? {
        let top = u.ratio(1, 2)?;
        v.day = if top { cal::MAX_DAY - u.int_in_range(0..=1i64)? } else { cal::MIN_DAY + u.int_in_range(0..=1i64)? };
        if kind == Kind::DateTime && off != 0 {
            let o = off as i64 * 1_000_000_000;
            let room = 86_400_000_000_000 - o.abs();
            let t = u.int_in_range(0..=room - 1)?;
            // top day: instant + max(off,0) must stay inside the day; bottom day: instant + min(off,0) >= 0
            v.ns = if (top && off > 0) || (!top && off > 0) { t } else { t + o.abs() };
            if top && off > 0 {
                v.ns = t;
            } else if !top && off < 0 {
                v.ns = t + o.abs();
            } else {
                v.ns = u.int_in_range(0..=86_399_999_999_999i64)?;
            }
        }
    }
    if kind == Kind::Time {
        v.day = 0;
    }
    if kind == Kind::Date {
        v.ns = 0;
    }
    Ok((v, off))
}

pub fn format_value(kind: Kind, v: Inst, off: i32, pattern: &str) -> Result<String, PanicInfo> {
    match kind {
        Kind::Date => {
            let d = mk_date(v.day);
            catch(|| d.format(pattern))
        }
        Kind::Time => {
            let t = mk_time(v.ns as u64).set_offset(Offset::Fixed(off));
            catch(|| t.format(pattern))
        }
        Kind::DateTime => {
            let d = mk_dt_off_any(v.i(), off);
            catch(|| d.format(pattern))
        }
    }
}

/// field widths and quoted texts up to 2^16 + a few are generated on purpose; nothing larger
pub fn toks_too_large(toks: &[Tok]) -> bool {
    toks.len() > 64
        || toks.iter().any(|t| match t {
            Tok::Field { width, .. } => *width > 70_000,
            Tok::Quoted(q) | Tok::Lit(q) => q.len() > 300_000,
            Tok::Apostrophe => false,
        })
}

pub fn case_ok(c: &Case) -> bool {
    if toks_too_large(&c.toks) {
        return false;
    }
    if !(c.v.valid() && c.off.abs() <= 86_399 && c.toks.len() <= 64 && (c.kind != Kind::Date || c.off == 0)) {
        return false;
    }
    // the value and (for DateTime) its local reading must both be representable
    if c.kind == Kind::DateTime {
        let local = c.v.i() + c.off as i128 * tl::NS;
        return tl::representable(local);
    }
    true
}

pub struct Format;
impl Prop for Format {
    type Case = Case;
    const NAME: &'static str = "C11.format";
    const BYTES: usize = 200;
    fn gen(u: &mut Unstructured<'_>) -> arbitrary::Result<Case> {
        let kind = *u.choose(&[Kind::Date, Kind::Time, Kind::DateTime, Kind::DateTime])?;
        let (v, off) = gen_value(u, kind)?;
        let toks = gen_tokens(u, kind, 8)?;
        Ok(Case { kind, v, off, toks })
    }
    fn check(c: &Case, cx: &mut Cx) -> Verdict {
        if !case_ok(c) {
            return Verdict::Skip("malformed case");
        }
        let pattern = fmt::pattern_of(&c.toks);
        if fmt::tokenize(c.kind, &pattern) != c.toks {
            return Verdict::Skip("pattern does not tokenise back to its tokens (ambiguous construction)");
        }
        let f = fmt::local_fields(c.kind, c.v.day, c.v.ns, c.off);
        let want = match fmt::render(&c.toks, &f, c.off) {
            Ok(w) => w,
            Err(why) => return Verdict::Skip(why),
        };
        // classification
        let nfields = c.toks.iter().filter(|t| matches!(t, Tok::Field { .. })).count();
        let distinguished = f.hour % 12 == 0
            || f.day_ns / 1_000_000_000 == 0
            || f.day_ns / 1_000_000_000 == 43_200
            || f.year < 0
            || f.year > 9999
            || (f.month == 12 && f.dom >= 25)
            || (f.month == 1 && f.dom <= 7)
            || c.off % 60 != 0
            || f.subsec != 0;
        if c.v.day <= cal::MIN_DAY + 1 || c.v.day >= cal::MAX_DAY - 1 {
            cx.nt("value_on_an_outermost_day");
        }
        if nfields >= 2 && distinguished {
            cx.nt("multi_field_distinguished_value");
        }
        if c.toks.iter().any(|t| matches!(t, Tok::Quoted(_) | Tok::Apostrophe)) {
            cx.nt("quoting");
        }
        if c.toks.iter().any(|t| matches!(t, Tok::Field { width, .. } if *width > 5)) {
            cx.nt("over_long_run");
        }
        if pattern.chars().any(|ch| !ch.is_ascii()) {
            cx.label("non_ascii_literal");
        }
        cx.label(match c.kind {
            Kind::Date => "date",
            Kind::Time => "time",
            Kind::DateTime => "datetime",
        });
        match format_value(c.kind, c.v, c.off, &pattern) {
            Err(p) => fail("c11.format_panic", format!("{:?}::format({:?}) = {:?}", c.kind, pattern, want), p.short()),
            Ok(got) => {
                if got != want {
                    // known finding: the tokenizer uses U+0000 as its in-band marker for an escaped
                    // apostrophe, so a literal U+0000 in a pattern comes out as an apostrophe
                    if pattern.contains('\u{0}') && got == want.replace('\u{0}', "'") {
                        return fail(
                            "c11.nul_literal_rendered_as_apostrophe",
                            format!("{:?} {} [{}] .format({:?}) = {:?}", c.kind, fmt_instant(c.v.i()), c.off, pattern, want),
                            format!("{:?}", got),
                        );
                    }
                    // name the first field that differs, for the signature
                    let mut sig = "c11.wrong_output".to_string();
                    for t in &c.toks {
                        if let Tok::Field { sym, width } = t {
                            let single = vec![t.clone()];
                            if let (Ok(w1), Ok(g1)) = (fmt::render(&single, &f, c.off), format_value(c.kind, c.v, c.off, &fmt::pattern_of(&single))) {
                                if w1 != g1 {
                                    sig = format!("c11.field_{}{}", sym, width);
                                    break;
                                }
                            }
                        }
                    }
                    return fail(
                        &sig,
                        format!("{:?} {} [{}] .format({:?}) = {:?}", c.kind, fmt_instant(c.v.i()), c.off, pattern, want),
                        format!("{:?}", got),
                    );
                }
                // rendering is a pure function: the same call after rendering a neighbouring value
                // (1..13 days / a second away) gives the same text (caches, memo tables, reused buffers)
                let h = (c.v.day as u64) ^ (c.v.ns as u64 >> 20);
                if h % 4 == 0 && pattern.len() < 200 {
                    let delta_days = [1i64, -1, 6, -6, 7, -7, 13, -13][(h / 4 % 8) as usize];
                    let other = Inst { day: c.v.day + delta_days, ns: (c.v.ns + 1_000_000_000).min(86_399_999_999_999) };
                    if other.day > cal::MIN_DAY + 1 && other.day < cal::MAX_DAY - 1 {
                        let _ = format_value(c.kind, other, c.off, &pattern);
                        match format_value(c.kind, c.v, c.off, &pattern) {
                            Ok(again) if again == want => {}
                            Ok(again) => {
                                return fail(
                                    "c11.depends_on_previous_call",
                                    format!("{:?} {} [{}] .format({:?}) after formatting {} = {:?}", c.kind, fmt_instant(c.v.i()), c.off, pattern, fmt_instant(other.i()), want),
                                    format!("{:?}", again),
                                )
                            }
                            Err(p) => return fail("c11.format_panic", "second call returns", p.short()),
                        }
                    }
                }
                // ... nor on which type the same pattern text was last used with (a pattern that mixes date
                // and time symbols means something different to Date, Time and DateTime)
                if h % 4 == 1 && pattern.len() < 200 {
                    for k in [Kind::Date, Kind::Time, Kind::DateTime] {
                        if k != c.kind {
                            let _ = format_value(k, Inst { day: if k == Kind::Time { 0 } else { c.v.day }, ns: if k == Kind::Date { 0 } else { c.v.ns } }, if k == Kind::Date { 0 } else { c.off }, &pattern);
                        }
                    }
                    match format_value(c.kind, c.v, c.off, &pattern) {
                        Ok(again) if again == want => {}
                        Ok(again) => {
                            return fail(
                                "c11.depends_on_previous_call",
                                format!("{:?} {} [{}] .format({:?}) after the same pattern was used on the other two types = {:?}", c.kind, fmt_instant(c.v.i()), c.off, pattern, want),
                                format!("{:?}", again),
                            )
                        }
                        Err(p) => return fail("c11.format_panic", "call after the same pattern was used on the other two types returns", p.short()),
                    }
                }
                Verdict::Pass
            }
        }
    }
}

/// `Offset::Local` is an offset too: under an injected zone file and a pinned clock a value that
/// carries it renders (and reads through its getters) as the instant shifted by the offset the
/// zone prescribes for the *current* time (C18: "what Offset::Local applies to the current time"),
/// wherever the value itself lies relative to the zone's transitions.
#[derive(Debug, Clone, Hash, Serialize, Deserialize)]
pub struct LocalCase {
    pub zone: crate::tzsyn::Synth,
    /// pinned clock, Unix seconds
    pub now: i64,
    pub kind: Kind,
    pub v: Inst,
    pub toks: Vec<Tok>,
}

pub struct LocalOffset;
impl Prop for LocalOffset {
    type Case = LocalCase;
    const NAME: &'static str = "C11.local_offset";
    const BYTES: usize = 800;
    fn gen(u: &mut Unstructured<'_>) -> arbitrary::Result<LocalCase> {
        let zone = crate::tzsyn::gen_synth(u)?;
        let salt: u64 = u.arbitrary()?;
        let ts = match crate::model::tz::read(&zone.build()) {
            Ok(tzf) => super::c18::interesting_ts(&tzf, salt, 3),
            Err(_) => vec![0],
        };
        let ts: Vec<i64> = ts.into_iter().filter(|t| (super::c18::TS_MIN..super::c18::TS_MAX).contains(t)).collect();
        let now = if ts.is_empty() { 1_700_000_000 } else { ts[u.below(ts.len() as u64)? as usize] };
        let at = if ts.is_empty() || u.coin(1, 5)? { now + u.range_i64(-400, 400)? * 86_400 } else { ts[u.below(ts.len() as u64)? as usize] + u.range_i64(-7_200, 7_200)? };
        let kind = *u.choose(&[Kind::Time, Kind::DateTime, Kind::DateTime])?;
        let sub = *u.choose(&[0i64, 0, 1, 500_000_000, 999_999_999])?;
        let mut v = Inst::from_i((at as i128 + tl::EPOCH_1970_S as i128) * tl::NS + sub as i128);
        if kind == Kind::Time {
            v.day = 0;
        }
        let toks = gen_tokens(u, kind, 6)?;
        Ok(LocalCase { zone, now, kind, v, toks })
    }
    fn check(c: &LocalCase, cx: &mut Cx) -> Verdict {
        let r = check_local(c, cx);
        astrolabe::verif::set_localtime(None);
        astrolabe::verif::set_now(None);
        r
    }
}

fn check_local(c: &LocalCase, cx: &mut Cx) -> Verdict {
    use astrolabe::{DateUtilities, TimeUtilities};
    if c.kind == Kind::Date || !c.v.valid() || toks_too_large(&c.toks) || !(super::c18::TS_MIN..super::c18::TS_MAX).contains(&c.now) {
        return Verdict::Skip("malformed case");
    }
    if c.kind == Kind::DateTime && !(cal::days_from_ymd(1800, 1, 1)..cal::days_from_ymd(2600, 1, 1)).contains(&c.v.day) {
        return Verdict::Skip("malformed case");
    }
    let bytes = match super::c18::bytes_of(&super::c18::Src::Synth(c.zone.clone())) {
        Ok(b) => b,
        Err(_) => return Verdict::Skip("malformed case"),
    };
    let Ok(tzf) = crate::model::tz::read(&bytes) else { return Verdict::Skip("not a well-formed TZif file for the reference reader") };
    let Some(off) = tzf.offset_at(c.now) else { return Verdict::Skip("clock before the first transition of the zone") };
    if off.unsigned_abs() > 86_399 {
        return Verdict::Skip("zone offset outside +-23:59:59");
    }
    let pattern = fmt::pattern_of(&c.toks);
    if fmt::tokenize(c.kind, &pattern) != c.toks {
        return Verdict::Skip("pattern does not tokenise back to its tokens (ambiguous construction)");
    }
    let f = fmt::local_fields(c.kind, c.v.day, c.v.ns, off);
    let want = match fmt::render(&c.toks, &f, off) {
        Ok(w) => w,
        Err(why) => return Verdict::Skip(why),
    };
    let value_ts = c.v.i().div_euclid(tl::NS) as i64 - tl::EPOCH_1970_S;
    if c.kind == Kind::DateTime {
        if let Some(at_value) = tzf.offset_at(value_ts) {
            if at_value != off {
                cx.nt("zone_offset_at_the_value_differs_from_the_one_now");
            }
        }
    }
    cx.label(if c.kind == Kind::Time { "time_with_Offset::Local" } else { "datetime_with_Offset::Local" });
    if off != 0 {
        cx.nt("nonzero_local_offset");
    }
    let now_dt = astrolabe::DateTime::from_timestamp(c.now);
    let r = catch(|| {
        astrolabe::verif::set_localtime(Some(Ok(bytes.clone())));
        astrolabe::verif::set_now(Some(now_dt));
        match c.kind {
            Kind::Time => {
                let t = mk_time(c.v.ns as u64).set_offset(Offset::Local);
                (t.format(&pattern), (0, 0, 0, t.hour(), t.minute(), t.second(), t.nano()), t.get_offset() == Offset::Local)
            }
            _ => {
                let d = mk_dt(c.v.i()).set_offset(Offset::Local);
                (d.format(&pattern), (d.year(), d.month(), d.day(), d.hour(), d.minute(), d.second(), d.nano()), d.get_offset() == Offset::Local)
            }
        }
    });
    let what = format!("{:?} {} carrying Offset::Local, zone {:?} ({} transitions), clock {} (zone offset now {})", c.kind, fmt_instant(c.v.i()), c.zone.footer, c.zone.transitions.len(), c.now, off);
    match r {
        Err(p) => fail("c11.local_format_panic", format!("{} .format({:?}) = {:?}", what, pattern, want), p.short()),
        Ok((got, getters, is_local)) => {
            let want_getters = if c.kind == Kind::Time { (0, 0, 0, f.hour, f.minute, f.second, f.subsec) } else { (f.year as i32, f.month, f.dom, f.hour, f.minute, f.second, f.subsec) };
            if getters != want_getters || !is_local {
                return fail("c11.local_getters", format!("{}: getters (y, m, d, h, m, s, ns) = {:?}", what, want_getters), format!("{:?} (still Offset::Local: {})", getters, is_local));
            }
            if got != want && pattern.contains('\u{0}') && got == want.replace('\u{0}', "'") {
                return fail("c11.nul_literal_rendered_as_apostrophe", format!("{} .format({:?}) = {:?}", what, pattern, want), format!("{:?}", got));
            }
            if got != want {
                return fail("c11.local_wrong_output", format!("{} .format({:?}) = {:?}", what, pattern, want), format!("{:?}", got));
            }
            Verdict::Pass
        }
    }
}

/// value classes for the symbol x width product
fn class_values() -> Vec<(Inst, i32)> {
    let mut v = Vec::new();
    let days = [
        cal::days_from_ymd(2022, 5, 2), cal::days_from_ymd(2020, 12, 31), cal::days_from_ymd(2021, 1, 3), cal::days_from_ymd(2024, 12, 30),
        cal::days_from_ymd(1, 1, 1), cal::days_from_ymd(-1, 12, 31), cal::days_from_ymd(-5, 2, 29), cal::days_from_ymd(9, 9, 9),
        cal::days_from_ymd(99, 10, 10), cal::days_from_ymd(999, 11, 30), cal::days_from_ymd(12_345, 6, 7), cal::days_from_ymd(1_234_567, 8, 9),
        cal::days_from_ymd(-123, 3, 4), cal::days_from_ymd(2001, 7, 15), cal::days_from_ymd(1999, 4, 1),
    ];
    for m in 1..=12u32 {
        v.push((Inst { day: cal::days_from_ymd(2023, m, 14 + (m % 7)), ns: 0 }, 0));
    }
    for d in days {
        for secs in [0i64, 1, 43_199, 43_200, 43_201, 86_399] {
            for sub in [0i64, 1, 999_999_999, 120_034_005] {
                for off in [0i32, 3600, -7200, 19_800, -12_645, 86_399, -59, 30] {
                    v.push((Inst { day: d, ns: secs * 1_000_000_000 + sub }, off));
                }
            }
        }
    }
    for h in 0..24i64 {
        v.push((Inst { day: 738_000, ns: h * 3_600_000_000_000 + 59 * 60_000_000_000 + 59_000_000_000 }, 0));
        v.push((Inst { day: 738_000, ns: h * 3_600_000_000_000 }, 0));
    }
    v
}

pub fn run(env: &mut Env) {
    let t = env.thorough();
    // symbol x width 1..=10 x value classes, each symbol alone and between literals
    let vals = std::sync::Arc::new(class_values());
    let all_syms: Vec<char> = syms_of(Kind::DateTime);
    let stride = if t { 1 } else { 7 };
    let vv = vals.clone();
    env.run_enum::<Format, _>((all_syms.len() * 10) as u64, move |i| {
        let sym = all_syms[i as usize / 10];
        let width = i as usize % 10 + 1;
        let vv = vv.clone();
        (0..vv.len()).step_by(stride).flat_map(move |j| {
            let (v, off) = vv[j];
            let kinds: Vec<Kind> = if fmt::DATE_SYMS.contains(&sym) { vec![Kind::Date, Kind::DateTime] } else { vec![Kind::Time, Kind::DateTime] };
            kinds.into_iter().map(move |kind| {
                let (v2, off2) = match kind {
                    Kind::Date => (Inst { day: v.day, ns: 0 }, 0),
                    Kind::Time => (Inst { day: 0, ns: v.ns }, off),
                    Kind::DateTime => (v, off),
                };
                let toks = if j % 2 == 0 {
                    vec![Tok::Field { sym, width }]
                } else {
                    vec![Tok::Lit("[".into()), Tok::Field { sym, width }, Tok::Quoted("o'clock".into()), Tok::Lit("]".into())]
                };
                Case { kind, v: v2, off: off2, toks }
            })
        })
    });
    env.exhaustive_parts.push(format!("C11: 19 symbols x widths 1..=10 x {} value classes{}", vals.len(), if t { "" } else { " (every 7th in quick)" }));
    env.run_random::<Format>(if t { 10_000_000 } else { 1_500_000 });
    env.run_random::<LocalOffset>(if t { 1_000_000 } else { 60_000 });
}
