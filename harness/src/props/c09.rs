//! C09 — setting or clearing one field changes exactly that field, in local time.
use crate::engine::*;
use crate::gen::{self, Inst};
use crate::model::{cal, tl};
use crate::obs::*;
use crate::props::c08;
use arbitrary::Unstructured;
use astrolabe::errors::AstrolabeError;
use astrolabe::{DateTime, DateUtilities, Offset, OffsetUtilities, TimeUtilities};
use serde::{Deserialize, Serialize};

#[derive(Debug, Clone, Hash, Serialize, Deserialize)]
pub enum Op {
    /// 0 year, 1 month, 2 day, 3 day_of_year, 4 hour, 5 minute, 6 second, 7 milli, 8 micro, 9 nano
    Set { field: u8, v: i64 },
    /// 0 year, 1 month, 2 day, 3 hour, 4 minute, 5 second, 6 milli, 7 micro, 8 nano
    Clear { until: u8 },
}

#[derive(Debug, Clone, Hash, Serialize, Deserialize)]
pub struct Case {
    pub i: Inst,
    pub off: i32,
    pub op: Op,
    /// false: DateTime receiver; true: Date receiver (date operations only, no offset)
    pub date: bool,
    /// != 0: the receiver carries its offset as `Offset::Local` under an injected zone file whose
    /// offset at this pinned Unix time is `off` (and differs at most other times)
    #[serde(default)]
    pub local_now: i64,
    /// 0 = the ambient zone is a plain table; 1..3 = it carries footer rules (J, zero-based, M)
    #[serde(default)]
    pub rules: u8,
}

const SETTERS: [&str; 10] = ["set_year", "set_month", "set_day", "set_day_of_year", "set_hour", "set_minute", "set_second", "set_milli", "set_micro", "set_nano"];
const CLEARS: [&str; 9] = ["clear_until_year", "clear_until_month", "clear_until_day", "clear_until_hour", "clear_until_minute", "clear_until_second", "clear_until_milli", "clear_until_micro", "clear_until_nano"];

/// model: local instant after the operation, or None when the operation must be refused
pub fn model(local: i128, op: &Op) -> Option<i128> {
    let f = tl::fields(local);
    let tod = f.day_ns as i128;
    match op {
        Op::Set { field, v } => {
            let v = *v;
            match field {
                0 => {
                    if v == 0 || !(cal::MIN_YMD.0..=cal::MAX_YMD.0).contains(&v) || !cal::valid_in_range(v, f.month, f.dom) {
                        return None;
                    }
                    Some(cal::days_from_ymd(v, f.month, f.dom) as i128 * tl::DAY_NS + tod)
                }
                1 => {
                    if !(1..=12).contains(&v) || !cal::valid_in_range(f.year, v as u32, f.dom) {
                        return None;
                    }
                    Some(cal::days_from_ymd(f.year, v as u32, f.dom) as i128 * tl::DAY_NS + tod)
                }
                2 => {
                    if v < 1 || v > cal::month_len(f.year, f.month) as i64 || !cal::valid_in_range(f.year, f.month, v as u32) {
                        return None;
                    }
                    Some(cal::days_from_ymd(f.year, f.month, v as u32) as i128 * tl::DAY_NS + tod)
                }
                3 => {
                    if v < 1 || v > cal::year_len(f.year) as i64 {
                        return None;
                    }
                    let d = cal::days_from_ymd(f.year, 1, 1) + v - 1;
                    if !(cal::MIN_DAY..=cal::MAX_DAY).contains(&d) {
                        return None;
                    }
                    Some(d as i128 * tl::DAY_NS + tod)
                }
                4..=9 => {
                    let max = [23i64, 59, 59, 999, 999_999, 999_999_999][*field as usize - 4];
                    if v < 0 || v > max {
                        return None;
                    }
                    let v = v as i128;
                    let sub = tod % tl::NS;
                    let t2 = match field {
                        4 => v * 3600 * tl::NS + tod % (3600 * tl::NS),
                        5 => tod - (tod % (3600 * tl::NS) - tod % (60 * tl::NS)) + v * 60 * tl::NS,
                        6 => tod - (tod % (60 * tl::NS) - sub) + v * tl::NS,
                        7 => tod - sub + v * 1_000_000 + sub % 1_000_000,
                        8 => tod - sub + v * 1_000 + sub % 1_000,
                        _ => tod - sub + v,
                    };
                    Some(f.day as i128 * tl::DAY_NS + t2)
                }
                _ => None,
            }
        }
        Op::Clear { until } => Some(match until {
            0 => 0,
            1 => cal::days_from_ymd(f.year, 1, 1) as i128 * tl::DAY_NS,
            2 => cal::days_from_ymd(f.year, f.month, 1) as i128 * tl::DAY_NS,
            3 => f.day as i128 * tl::DAY_NS,
            4 => local - tod % (3600 * tl::NS),
            5 => local - tod % (60 * tl::NS),
            6 => local - tod % tl::NS,
            7 => local - tod % 1_000_000,
            _ => local - tod % 1_000,
        }),
    }
}

fn u32_of(v: i64) -> Option<u32> {
    u32::try_from(v).ok()
}

pub struct SetClear;
impl Prop for SetClear {
    type Case = Case;
    const NAME: &'static str = "C09.set_clear";
    const BYTES: usize = 96;
    fn gen(u: &mut Unstructured<'_>) -> arbitrary::Result<Case> {
        let date = u.coin(1, 5)?;
        let off = if date { 0 } else { gen::offset(u)? };
        // instants biased so that the local date differs from the UTC date, to month/year ends, Feb 29
        let mut i = gen::inst(u, 4)?;
        let edge = u.coin(1, 12)?;
        let (i_e, off_e) = if edge { gen::edge_inst_off(u)? } else { (i, off) };
        let off = if edge && !date { off_e } else { off };
        if edge {
            i = i_e;
        }
        if !edge && !date && off != 0 && u.coin(1, 2)? {
            // put the UTC time of day within |off| of midnight on the side that flips the local date
            let o = off as i64 * 1_000_000_000;
            let within = u.below(o.unsigned_abs().max(1))? as i64;
            i.ns = if off > 0 { 86_400_000_000_000 - 1 - within } else { within };
            i.ns = i.ns.clamp(0, 86_399_999_999_999);
        }
        let mut local_now = if !date && u.coin(1, 6)? { u.range_i64(-1_900_000_000, 2_100_000_000)? } else { 0 };
        let mut rules = 0u8;
        if local_now != 0 && !edge && u.coin(1, 2)? {
            // the ambient zone carries rules (built from the operation's own numbers, see check);
            // two times in three the receiver and the clock stand in the same year
            rules = 1 + u.below(3)? as u8;
            if u.coin(2, 3)? {
                let mut yr = 1971 + u.below(66)? as i64;
                if u.coin(1, 2)? {
                    yr = (yr - yr.rem_euclid(4)).max(1972);
                }
                i.day = cal::days_from_ymd(yr, 1, 1) + u.below(cal::year_len(yr) as u64)? as i64;
                local_now = (cal::days_from_ymd(yr, 1 + u.below(12)? as u32, 1 + u.below(28)? as u32) - cal::DAYS_TO_1970) * 86_400 + u.below(86_400)? as i64;
            }
        }
        let local = i.i() + off as i128 * tl::NS;
        let f = tl::fields(local);
        let op = if u.coin(2, 3)? {
            let field = if date { u.below(4)? as u8 } else { u.below(10)? as u8 };
            let (min, max, cur): (i64, i64, i64) = match field {
                0 => (cal::MIN_YMD.0, cal::MAX_YMD.0, f.year),
                1 => (1, 12, f.month as i64),
                2 => (1, cal::month_len(f.year, f.month) as i64, f.dom as i64),
                3 => (1, cal::year_len(f.year) as i64, cal::day_of_year(f.day) as i64),
                4 => (0, 23, f.hour as i64),
                5 => (0, 59, f.minute as i64),
                6 => (0, 59, f.second as i64),
                7 => (0, 999, (f.subsec / 1_000_000) as i64),
                8 => (0, 999_999, (f.subsec / 1_000) as i64),
                _ => (0, 999_999_999, f.subsec as i64),
            };
            let v = match u.below(12)? {
                // a candidate in relation to the value the field has now (the same year +- a few:
                // a leap day may or may not lie between; the UTC reading's field)
                10 | 11 => cur + u.range_i64(-8, 8)?,
                0 => min,
                1 => min + 1,
                2 => max - 1,
                3 => max,
                4 => max + 1,
                5 => min - 1,
                6 => cur,
                7 => *u.choose(&[1i64 << 31, (1i64 << 32) - 1, (1i64 << 31) - 1, 0, 28, 29, 30, 31, 366, 365, 60, 100, 1000, 100_000, 100_000_000])?,
                8 if field == 0 => gen::year(u)?,
                _ => u.range_i64(min, max)?,
            };
            let v = if field == 0 { v.clamp(i32::MIN as i64, i32::MAX as i64) } else { v.clamp(0, u32::MAX as i64) };
            Op::Set { field, v }
        } else {
            Op::Clear { until: if date { u.below(3)? as u8 } else { u.below(9)? as u8 } }
        };
        Ok(Case { i, off, op, date, local_now, rules })
    }
    fn check(c: &Case, cx: &mut Cx) -> Verdict {
        if !c.i.valid() || c.off.unsigned_abs() > 86_399 || (c.date && c.off != 0) {
            return Verdict::Skip("malformed case");
        }
        let near_end = c.i.day < cal::MIN_DAY + 3 || c.i.day > cal::MAX_DAY - 3;
        if near_end && matches!(c.op, Op::Clear { .. }) {
            return Verdict::Skip("clear_until_* on a receiver within 3 days of a range end (infallible signature, unspecified)");
        }
        match &c.op {
            Op::Set { field, v } => {
                if *field > 9 || (c.date && *field > 3) || (*field == 0 && i32::try_from(*v).is_err()) || (*field != 0 && u32_of(*v).is_none()) {
                    return Verdict::Skip("malformed case");
                }
            }
            Op::Clear { until } => {
                if *until > 8 || (c.date && *until > 2) {
                    return Verdict::Skip("malformed case");
                }
            }
        }
        let utc = if c.date { c.i.day as i128 * tl::DAY_NS } else { c.i.i() };
        let local = utc + c.off as i128 * tl::NS;
        if !tl::representable(local) {
            return Verdict::Skip("receiver whose local reading is not representable cannot be built");
        }
        let mut want_local = model(local, &c.op);
        if let Some(wl) = want_local {
            let d = wl.div_euclid(tl::DAY_NS) as i64;
            if d < cal::MIN_DAY + 2 || d > cal::MAX_DAY - 2 {
                if matches!(c.op, Op::Clear { .. }) {
                    return Verdict::Skip("clear_until_* target within 2 days of a range end (unspecified)");
                }
                // setters return a Result: a valid local reading whose instant is not
                // representable is "out of range", everything else has its exact value
                if !tl::representable(wl) || !tl::representable(wl - c.off as i128 * tl::NS) {
                    want_local = None;
                    cx.nt("valid_fields_but_unrepresentable_instant");
                } else {
                    cx.nt("set_result_on_an_outermost_day");
                }
            }
        }
        // classification
        let f = tl::fields(local);
        if local.div_euclid(tl::DAY_NS) != utc.div_euclid(tl::DAY_NS) {
            cx.nt("local_date!=utc_date");
        }
        if f.month == 2 && f.dom == 29 {
            cx.nt("feb29");
        }
        if local < 0 {
            cx.nt("bc");
        }
        if f.subsec % 1_000_000 != 0 {
            cx.label("sub_millisecond_remainder");
        }
        let opname = match &c.op {
            Op::Set { field, v } => {
                if want_local.is_none() {
                    cx.nt("refused_value");
                }
                let _ = v;
                SETTERS[*field as usize]
            }
            Op::Clear { until } => CLEARS[*until as usize],
        };
        cx.label(opname);
        if c.date {
            cx.label("date_receiver");
        }
        let what = format!(
            "{:?} on {} {} [offset {}] (local {})",
            c.op,
            if c.date { "Date" } else { "DateTime" },
            fmt_instant(utc),
            c.off,
            fmt_instant(local)
        );
        // run
        type Obs = (i128, Option<Offset>, (i32, u32, u32, u32, u8), Option<(u32, u32, u32, u32, u32, u32)>);
        let r: Result<Result<Obs, AstrolabeError>, PanicInfo> = if c.date {
            let d0 = mk_date(c.i.day);
            catch(|| {
                let r = match &c.op {
                    Op::Set { field, v } => match field {
                        0 => d0.set_year(*v as i32)?,
                        1 => d0.set_month(*v as u32)?,
                        2 => d0.set_day(*v as u32)?,
                        _ => d0.set_day_of_year(*v as u32)?,
                    },
                    Op::Clear { until } => match until {
                        0 => d0.clear_until_year(),
                        1 => d0.clear_until_month(),
                        _ => d0.clear_until_day(),
                    },
                };
                Ok((rd_date(&r) as i128 * tl::DAY_NS, None, (r.year(), r.month(), r.day(), r.day_of_year(), r.weekday()), None))
            })
        } else {
            let use_local = c.local_now != 0 && local_now_ok(c.local_now) && utc.div_euclid(tl::DAY_NS) > (cal::MIN_DAY + 3) as i128 && utc.div_euclid(tl::DAY_NS) < (cal::MAX_DAY - 3) as i128;
            if use_local {
                cx.nt("offset_carried_as_Offset::Local");
                if c.rules != 0 {
                    // rule days and months taken from the operation and the receiver
                    let lf = tl::fields(local);
                    let cur_doy = cal::day_of_year(lf.day) as i64;
                    let arg = match &c.op {
                        Op::Set { v, .. } => *v,
                        Op::Clear { until } => cur_doy + *until as i64,
                    };
                    let a = (arg - 1).rem_euclid(365) + 1;
                    let b = if (cur_doy - 1).rem_euclid(365) + 1 != a { (cur_doy - 1).rem_euclid(365) + 1 } else { (a + 99) % 365 + 1 };
                    let text = match c.rules {
                        1 => format!("J{},J{}/3", a, b),
                        2 => format!("{},{}/1:30", a - 1, b - 1),
                        _ => format!("M{}.{}.{},M{}.{}.{}/3", (arg - 1).rem_euclid(12) + 1, arg.rem_euclid(5) + 1, arg.rem_euclid(7), lf.month % 12 + 1, lf.dom % 5 + 1, lf.dom % 7),
                    };
                    if pin_local_rules(c.off, c.local_now, &text) {
                        cx.nt("ambient_zone_with_rules_built_from_the_case's_numbers");
                    }
                } else {
                    pin_local(c.off, c.local_now);
                }
            }
            let d0: DateTime = match catch(|| if use_local { mk_dt_off_any(utc, 0).set_offset(Offset::Local) } else { mk_dt_off_any(utc, c.off) }) {
                Ok(d) => d,
                Err(p) => {
                    unpin_local();
                    return fail("c09.harness_build", "receiver builds", p.short());
                }
            };
            let res = catch(|| {
                let r = match &c.op {
                    Op::Set { field, v } => match field {
                        0 => d0.set_year(*v as i32)?,
                        1 => d0.set_month(*v as u32)?,
                        2 => d0.set_day(*v as u32)?,
                        3 => d0.set_day_of_year(*v as u32)?,
                        4 => d0.set_hour(*v as u32)?,
                        5 => d0.set_minute(*v as u32)?,
                        6 => d0.set_second(*v as u32)?,
                        7 => d0.set_milli(*v as u32)?,
                        8 => d0.set_micro(*v as u32)?,
                        _ => d0.set_nano(*v as u32)?,
                    },
                    Op::Clear { until } => match until {
                        0 => d0.clear_until_year(),
                        1 => d0.clear_until_month(),
                        2 => d0.clear_until_day(),
                        3 => d0.clear_until_hour(),
                        4 => d0.clear_until_minute(),
                        5 => d0.clear_until_second(),
                        6 => d0.clear_until_milli(),
                        7 => d0.clear_until_micro(),
                        _ => d0.clear_until_nano(),
                    },
                };
                if (c.i.ns ^ c.i.day) % 4 == 0 {
                    if let Err(why) = canonical_dt(&r) {
                        panic!("non-canonical result: {}", why);
                    }
                }
                Ok((
                    rd_dt(&r),
                    Some(r.get_offset()),
                    (r.year(), r.month(), r.day(), r.day_of_year(), r.weekday()),
                    Some((r.hour(), r.minute(), r.second(), r.milli(), r.micro(), r.nano())),
                ))
            });
            unpin_local();
            // a value that carried Offset::Local keeps it; everything else reads as with Fixed(off)
            match res {
                Ok(Ok((i, Some(o), d, t))) if use_local => Ok(Ok((i, Some(if o == Offset::Local { Offset::Fixed(c.off) } else { Offset::Fixed(i32::MIN) }), d, t))),
                other => other,
            }
        };
        let sig = format!("c09.{}", opname);
        match (want_local, r) {
            (_, Err(p)) => fail(&format!("{}.panic", sig), format!("{} returns", what), p.short()),
            (None, Ok(Ok((got, ..)))) => fail(&format!("{}.accepts_invalid", sig), format!("{} = Err(OutOfRange)", what), format!("Ok({})", fmt_instant(got))),
            (None, Ok(Err(e))) => {
                if matches!(e, AstrolabeError::OutOfRange(_)) {
                    Verdict::Pass
                } else {
                    fail(&format!("{}.wrong_error", sig), "Err(OutOfRange)", format!("{:?}", e))
                }
            }
            (Some(wl), Ok(Err(e))) => fail(&format!("{}.rejects_valid", sig), format!("{} = local {}", what, fmt_instant(wl)), format!("Err({})", e)),
            (Some(wl), Ok(Ok((got, off, datef, timef)))) => {
                let want_utc = wl - c.off as i128 * tl::NS;
                if got != want_utc {
                    let sig2 = if matches!(c.op, Op::Clear { until } if until <= 2) && c.off != 0 { format!("{}.ignores_offset", sig) } else { format!("{}.wrong_instant", sig) };
                    return fail(&sig2, format!("{} = local {} = instant {}", what, fmt_instant(wl), fmt_instant(want_utc)), fmt_instant(got));
                }
                if !c.date && off != Some(Offset::Fixed(c.off)) {
                    return fail(&format!("{}.offset_changed", sig), format!("offset stays {}", c.off), format!("{:?}", off));
                }
                let wf = tl::fields(wl);
                let want_date = (wf.year as i32, wf.month, wf.dom, cal::day_of_year(wf.day), cal::weekday(wf.day) as u8);
                if datef != want_date {
                    return fail(&format!("{}.getters", sig), format!("(year, month, day, day_of_year, weekday) of the result = {:?}", want_date), format!("{:?}", datef));
                }
                if let Some(tf) = timef {
                    let want_time = (wf.hour, wf.minute, wf.second, wf.subsec / 1_000_000, wf.subsec / 1_000, wf.subsec);
                    if tf != want_time {
                        return fail(&format!("{}.getters", sig), format!("(hour, minute, second, milli, micro, nano) of the result = {:?}", want_time), format!("{:?}", tf));
                    }
                }
                Verdict::Pass
            }
        }
    }
}

/// Time receivers: single set/clear operations through the C08 reference state
pub struct TimeSetClear;
impl Prop for TimeSetClear {
    type Case = c08::Case;
    const NAME: &'static str = "C09.time_set_clear";
    const BYTES: usize = 64;
    fn gen(u: &mut Unstructured<'_>) -> arbitrary::Result<c08::Case> {
        let start_ns = gen::day_ns(u)? as u64;
        let start_off = gen::offset(u)?;
        let op = if u.coin(2, 3)? {
            let field = u.below(6)? as u8;
            let max = [23u32, 59, 59, 999, 999_999, 999_999_999][field as usize];
            let v = match u.below(6)? {
                0 => *u.choose(&[0, 1, max - 1, max])?,
                1 => *u.choose(&[max + 1, u32::MAX, 1 << 31, 100, 100_000, 100_000_000])?,
                _ => u.int_in_range(0..=max)?,
            };
            c08::Op::Set { field, v }
        } else {
            c08::Op::Clear { until: u.below(6)? as u8 }
        };
        Ok(c08::Case { start_ns, start_off, ops: vec![op] })
    }
    fn check(c: &c08::Case, cx: &mut Cx) -> Verdict {
        if c.ops.len() != 1 || !matches!(c.ops[0], c08::Op::Set { .. } | c08::Op::Clear { .. }) {
            return Verdict::Skip("malformed case");
        }
        if let c08::Op::Set { field, v } = &c.ops[0] {
            let max = [23u32, 59, 59, 999, 999_999, 999_999_999][(*field).min(5) as usize];
            if *v == max || *v == max + 1 {
                cx.nt("candidate_at_max_or_max+1");
            }
        }
        let local = (c.start_ns as i128 + c.start_off as i128 * tl::NS).rem_euclid(c08::DAY);
        if local + (c.start_off as i128 * tl::NS).abs() >= c08::DAY || local < (c.start_off as i128 * tl::NS).abs() {
            cx.nt("time_wraps_under_offset");
        }
        <c08::History as Prop>::check(c, cx)
    }
}

#[derive(Debug, Clone, Hash, Serialize, Deserialize)]
pub struct ChainCase {
    pub i: Inst,
    pub off: i32,
    pub ops: Vec<Op>,
}

fn apply_dt(d: &DateTime, op: &Op) -> Result<DateTime, AstrolabeError> {
    Ok(match op {
        Op::Set { field, v } => match field {
            0 => d.set_year(*v as i32)?,
            1 => d.set_month(*v as u32)?,
            2 => d.set_day(*v as u32)?,
            3 => d.set_day_of_year(*v as u32)?,
            4 => d.set_hour(*v as u32)?,
            5 => d.set_minute(*v as u32)?,
            6 => d.set_second(*v as u32)?,
            7 => d.set_milli(*v as u32)?,
            8 => d.set_micro(*v as u32)?,
            _ => d.set_nano(*v as u32)?,
        },
        Op::Clear { until } => match until {
            0 => d.clear_until_year(),
            1 => d.clear_until_month(),
            2 => d.clear_until_day(),
            3 => d.clear_until_hour(),
            4 => d.clear_until_minute(),
            5 => d.clear_until_second(),
            6 => d.clear_until_milli(),
            7 => d.clear_until_micro(),
            _ => d.clear_until_nano(),
        },
    })
}

/// chains of 2..4 set/clear operations on one DateTime: the local-field model is applied step
/// by step, and after every step the instant, the offset and all getters are compared. A step
/// that leaves a non-normalised value behind shows in the next step.
pub struct Chain;
impl Prop for Chain {
    type Case = ChainCase;
    const NAME: &'static str = "C09.chain";
    const BYTES: usize = 160;
    fn gen(u: &mut Unstructured<'_>) -> arbitrary::Result<ChainCase> {
        let whole_hours = u.coin(1, 2)?;
        let off = if whole_hours { u.int_in_range(-23..=23i32)? * 3600 } else { gen::offset(u)? };
        let i = gen::inst(u, 400)?;
        let mut ops = Vec::new();
        if u.coin(1, 3)? {
            // aim at an exact UTC midnight: local hh:00:00.0 with hh = offset hours (mod 24), then a date setter
            let hh = (off / 3600).rem_euclid(24) as i64;
            ops.push(Op::Clear { until: 4 });
            ops.push(Op::Set { field: 4, v: hh });
            if off % 3600 != 0 {
                ops.push(Op::Set { field: 5, v: ((off % 3600) / 60).rem_euclid(60) as i64 });
                ops.push(Op::Set { field: 6, v: (off % 60).rem_euclid(60) as i64 });
            }
            ops.push(Op::Set { field: *u.choose(&[1u8, 2, 3])?, v: u.range_i64(1, 28)?.min(12).max(1) });
            ops.push(Op::Set { field: 2, v: u.range_i64(1, 28)? });
        } else {
            for _ in 0..2 + u.below(3)? {
                ops.push(if u.coin(2, 3)? {
                    let field = u.below(10)? as u8;
                    let max = [0i64, 12, 28, 365, 23, 59, 59, 999, 999_999, 999_999_999][field as usize];
                    let v = if field == 0 { u.range_i64(-3000, 3000)? } else { u.range_i64(if field <= 3 { 1 } else { 0 }, max)? };
                    Op::Set { field, v: if field == 0 && v == 0 { 1 } else { v } }
                } else {
                    Op::Clear { until: 1 + u.below(8)? as u8 }
                });
            }
        }
        Ok(ChainCase { i, off, ops })
    }
    fn check(c: &ChainCase, cx: &mut Cx) -> Verdict {
        if !c.i.valid() || c.off.unsigned_abs() > 86_399 || c.ops.len() > 8 || c.i.day < cal::MIN_DAY + 3 || c.i.day > cal::MAX_DAY - 3 {
            return Verdict::Skip("malformed case");
        }
        let mut d = match catch(|| mk_dt_off_any(c.i.i(), c.off)) {
            Ok(d) => d,
            Err(p) => return fail("c09.harness_build", "receiver builds", p.short()),
        };
        let mut local = c.i.i() + c.off as i128 * tl::NS;
        for (k, op) in c.ops.iter().enumerate() {
            match op {
                Op::Set { field, v } if *field > 9 || (*field == 0 && i32::try_from(*v).is_err()) || (*field != 0 && u32_of(*v).is_none()) => return Verdict::Skip("malformed case"),
                Op::Clear { until } if *until > 8 => return Verdict::Skip("malformed case"),
                _ => {}
            }
            cx.extra_evals += 1;
            let want = model(local, op);
            if let Some(w) = want {
                let wd = w.div_euclid(tl::DAY_NS) as i64;
                if wd < cal::MIN_DAY + 2 || wd > cal::MAX_DAY - 2 {
                    return Verdict::Skip("target local date within 2 days of a range end (unspecified)");
                }
                if (w - c.off as i128 * tl::NS).rem_euclid(tl::DAY_NS) == 0 && k + 1 < c.ops.len() {
                    cx.nt("intermediate_value_exactly_at_utc_midnight");
                }
            }
            let what = format!("step {} {:?} of {:?} on {} [offset {}]", k + 1, op, c.ops, fmt_instant(c.i.i()), c.off);
            match (want, catch(|| apply_dt(&d, op))) {
                (_, Err(p)) => return fail("c09.chain.panic", format!("{} returns", what), p.short()),
                (None, Ok(Ok(r))) => return fail("c09.chain.accepts_invalid", format!("{} = Err(OutOfRange)", what), fmt_instant(rd_dt(&r))),
                (None, Ok(Err(e))) => {
                    if !matches!(e, AstrolabeError::OutOfRange(_)) {
                        return fail("c09.chain.wrong_error", "OutOfRange", format!("{:?}", e));
                    }
                }
                (Some(w), Ok(Err(e))) => return fail("c09.chain.rejects_valid", format!("{} = local {}", what, fmt_instant(w)), format!("Err({})", e)),
                (Some(w), Ok(Ok(r))) => {
                    let got = match catch(|| (rd_dt(&r), r.get_offset(), (r.year(), r.month(), r.day(), r.hour(), r.minute(), r.second(), r.nano()))) {
                        Ok(g) => g,
                        Err(p) => return fail("c09.chain.getters_panic", format!("getters after {}", what), p.short()),
                    };
                    let wf = tl::fields(w);
                    let want_obs = (w - c.off as i128 * tl::NS, Offset::Fixed(c.off), (wf.year as i32, wf.month, wf.dom, wf.hour, wf.minute, wf.second, wf.subsec));
                    if got != want_obs {
                        return fail("c09.chain.wrong_state", format!("{} = local {} ({:?})", what, fmt_instant(w), want_obs.2), format!("instant {} offset {:?} getters {:?}", fmt_instant(got.0), got.1, got.2));
                    }
                    d = r;
                    local = w;
                }
            }
        }
        cx.nt("chain_of_setters");
        Verdict::Pass
    }
}

pub fn run(env: &mut Env) {
    let t = env.thorough();
    env.run_random::<SetClear>(if t { 40_000_000 } else { 5_000_000 });
    env.run_random::<TimeSetClear>(if t { 5_000_000 } else { 1_000_000 });
    env.run_random::<Chain>(if t { 5_000_000 } else { 1_000_000 });
}
