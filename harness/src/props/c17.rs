//! C17 — the cron iterator yields every matching minute after now, in order, only those.
use crate::engine::*;
use crate::model::cal;
use crate::model::cron::{self, FieldKind, Parsed};
use crate::obs::*;
use crate::props::c16;
use arbitrary::Unstructured;
use astrolabe::{CronSchedule, TimeUtilities};
use serde::{Deserialize, Serialize};

#[derive(Debug, Clone, Hash, Serialize, Deserialize)]
pub struct Step {
    /// seconds the clock advances before this call
    pub advance: i64,
    /// clone the schedule before this call and continue both copies
    pub clone: bool,
}

#[derive(Debug, Clone, Hash, Serialize, Deserialize)]
pub struct Case {
    pub expr: String,
    /// start of the clock: seconds since 0001-01-01T00:00:00
    pub start: i64,
    pub steps: Vec<Step>,
    /// a second, different schedule that is polled under the same clock directly before every call
    /// (schedules are independent of each other)
    #[serde(default)]
    pub other: Option<String>,
}

pub fn gen_start(u: &mut Unstructured) -> arbitrary::Result<i64> {
    let k = u.int_in_range(0..=9u8)?;
    if k >= 8 {
        // any year the clock could show: years 1..=9999 uniformly, and far years (before 0001, five
        // and six digits, next to both range ends) - the statement does not bound the start instant
        let y = if k == 8 {
            u.int_in_range(1..=9_999i64)?
        } else {
            *u.choose(&[-5_879_600i64, -400_000, -10_000, -401, -400, -101, -100, -5, -4, -2, -1, 1, 2, 3, 4, 5, 100, 400, 1582, 1900, 9_999, 10_000, 12_000, 99_999, 100_000, 400_000, 5_879_590])?
        };
        let m = if u.ratio(1, 3)? { *u.choose(&[1u32, 2, 12])? } else { u.int_in_range(1..=12u32)? };
        let d = if u.ratio(1, 3)? { cal::month_len(y, m) } else { u.int_in_range(1..=cal::month_len(y, m))? };
        let tod = if u.ratio(1, 4)? { 86_340 + u.int_in_range(0..=59i64)? } else { u.int_in_range(0..=86_399i64)? };
        return Ok(cal::days_from_ymd(y, m, d) * 86_400 + tod);
    }
    if k == 7 {
        // the turn of a year next to a leap year / a common century year, any day of Nov..Mar
        let y = *u.choose(&[2023i64, 2024, 2027, 2028, 2095, 2096, 2099, 2100, 2103, 2104, 1999, 2000, 2199, 2200])?;
        let (yy, m) = *u.choose(&[(y, 11u32), (y, 12), (y, 12), (y + 1, 1), (y + 1, 2), (y + 1, 3)])?;
        let d = u.int_in_range(1..=cal::month_len(yy, m))?;
        return Ok(cal::days_from_ymd(yy, m, d) * 86_400 + u.int_in_range(0..=86_399i64)?);
    }
    let y = if k == 0 { u.int_in_range(1970..=2399i64)? } else { *u.choose(&[1999i64, 2000, 2023, 2024, 2025, 2027, 2028, 2096, 2099, 2100, 2103, 2104, 2399])? };
    let (m, d) = match u.int_in_range(0..=5u8)? {
        0 => (2, 28),
        1 => (2, if cal::is_leap(y) { 29 } else { 28 }),
        2 => (12, 31),
        3 => {
            let m = u.int_in_range(1..=12u32)?;
            (m, cal::month_len(y, m))
        }
        _ => {
            let m = u.int_in_range(1..=12u32)?;
            (m, u.int_in_range(1..=cal::month_len(y, m))?)
        }
    };
    let tod = match u.int_in_range(0..=4u8)? {
        0 => 86_340 + u.int_in_range(0..=59i64)?,
        1 => u.int_in_range(0..=60i64)?,
        _ => u.int_in_range(0..=86_399i64)?,
    };
    Ok(cal::days_from_ymd(y, m, d) * 86_400 + tod)
}

pub fn gen_schedule(u: &mut Unstructured) -> arbitrary::Result<String> {
    // biased to sparse sets and to both day fields restricted
    let sparse = u.ratio(2, 3)?;
    let minute = if u.ratio(1, 3)? { "*".to_string() } else { c16::gen_field(u, FieldKind::Minute, sparse)? };
    let hour = if u.ratio(1, 3)? { "*".to_string() } else { c16::gen_field(u, FieldKind::Hour, sparse)? };
    let day_mode = u.int_in_range(0..=5u8)?;
    let dom = if matches!(day_mode, 0 | 1 | 2) { c16::gen_field(u, FieldKind::Dom, sparse)? } else { "*".to_string() };
    let dow = if matches!(day_mode, 0 | 1 | 3) { c16::gen_field(u, FieldKind::Dow, sparse)? } else { "*".to_string() };
    let month = if u.ratio(1, 2)? { "*".to_string() } else { c16::gen_field(u, FieldKind::Month, sparse)? };
    let special = u.int_in_range(0..=19u8)?;
    if (4..=7).contains(&special) {
        // long-gap family: only days 29+ (so short months are skipped) x an arbitrary subset of
        // months; the search has to cross month ends, year ends and leap/common Februaries
        let dom = *u.choose(&["29", "29-31", "29,30", "30", "31", "30,31", "29,31", "*/29", "*/30"])?;
        let mask = u.int_in_range(1..=4095u32)?;
        let mask = if u.ratio(1, 2)? { mask | 0b10 } else { mask }; // often with February
        let months: Vec<String> = (1..=12).filter(|m| mask & (1 << (m - 1)) != 0).map(|m| m.to_string()).collect();
        let (mi, ho) = if u.ratio(1, 2)? { ("0".to_string(), "0".to_string()) } else { (minute.clone(), hour.clone()) };
        return Ok(format!("{} {} {} {} *", mi, ho, dom, months.join(",")));
    }
    if special == 8 {
        // a day-of-month list that covers (almost) every day of the scheduled months, next to a
        // restricted weekday field: the two day fields are OR-ed as soon as the day-of-month field is
        // not `*`, however many days it lists
        let dom = *u.choose(&["1-28", "1-29", "1-30", "1-31", "2-31", "1-30,31", "1-15,16-30", "1-29,30", "*/1"])?;
        let mask = u.int_in_range(1..=4095u32)?;
        let mask = match u.int_in_range(0..=3u8)? {
            0 => mask & 0b1010_0101_1010, // only 30-day months and February
            1 => 0b10,
            _ => mask,
        };
        let mask = if mask == 0 { 0b1000 } else { mask };
        let months: Vec<String> = (1..=12).filter(|m| mask & (1 << (m - 1)) != 0).map(|m| m.to_string()).collect();
        let dow = c16::gen_field(u, FieldKind::Dow, true)?;
        return Ok(format!("{} {} {} {} {}", if u.ratio(1, 2)? { "0".to_string() } else { minute.clone() }, if u.ratio(1, 2)? { "0".to_string() } else { hour.clone() }, dom, months.join(","), dow));
    }
    Ok(match special {
        0 => "0 0 29 2 *".to_string(),
        1 => "59 23 31 12 *".to_string(),
        2 => format!("{} {} 29-31 * *", minute, hour),
        3 => format!("{} {} 31 * mon", minute, hour),
        _ => format!("{} {} {} {} {}", minute, hour, dom, month, dow),
    })
}

pub struct History;
impl Prop for History {
    type Case = Case;
    const NAME: &'static str = "C17.history";
    const BYTES: usize = 400;
    fn gen(u: &mut Unstructured<'_>) -> arbitrary::Result<Case> {
        gen_case(u, 1, 12)
    }
    fn check(c: &Case, cx: &mut Cx) -> Verdict {
        let v = run_history(c, cx);
        astrolabe::verif::set_now(None);
        v
    }
}

/// the same histories with 13..=40 calls (thorough tier)
pub struct LongHistory;
impl Prop for LongHistory {
    type Case = Case;
    const NAME: &'static str = "C17.long_history";
    const BYTES: usize = 900;
    fn gen(u: &mut Unstructured<'_>) -> arbitrary::Result<Case> {
        gen_case(u, 13, 40)
    }
    fn check(c: &Case, cx: &mut Cx) -> Verdict {
        cx.label("13..=40_calls");
        let v = run_history(c, cx);
        astrolabe::verif::set_now(None);
        v
    }
}

fn gen_case(u: &mut Unstructured<'_>, min_steps: usize, max_steps: usize) -> arbitrary::Result<Case> {
    {
        let expr = gen_schedule(u)?;
        let start = gen_start(u)?;
        let n = u.int_in_range(min_steps..=max_steps)?;
        let mut steps = Vec::new();
        for _ in 0..n {
            let advance = match u.int_in_range(0..=12u8)? {
                // whole years (common / leap / four of them), give or take: the clock returns to the
                // same day of the year
                12 => *u.choose(&[365i64, 365, 366, 730, 731, 1_461])? * 86_400 + u.range_i64(-90_000, 90_000)?.max(-86_400 * 364),
                0 | 1 | 2 => 0,
                3 => u.int_in_range(1..=59i64)?,
                // marker values resolved at run time relative to the last result
                4 => -1, // exactly up to the last result
                5 => -2, // just past the last result
                6 => u.int_in_range(60..=7_200i64)?,
                7 => u.int_in_range(3_600..=200_000i64)?,
                8 => u.int_in_range(86_400..=40 * 86_400i64)?,
                9 => u.int_in_range(28 * 86_400..=800 * 86_400i64)?,
                _ => u.int_in_range(0..=120i64)?,
            };
            steps.push(Step { advance, clone: u.ratio(1, 10)? });
        }
        let other = match u.int_in_range(0..=5u8)? {
            0 => Some(gen_schedule(u)?),
            1 | 2 => {
                // the same schedule with one field drawn again
                let mut f: Vec<String> = expr.split_whitespace().map(|x| x.to_string()).collect();
                if f.len() == 5 {
                    let k = *u.choose(&[0usize, 1, 2, 2, 3, 4, 4])?;
                    f[k] = c16::gen_field(u, [FieldKind::Minute, FieldKind::Hour, FieldKind::Dom, FieldKind::Month, FieldKind::Dow][k], true)?;
                    Some(f.join(" "))
                } else {
                    None
                }
            }
            _ => None,
        };
        Ok(Case { expr, start, steps, other })
    }
}

fn run_history(c: &Case, cx: &mut Cx) -> Verdict {
    if c.expr.len() > 300 || c.steps.len() > 64 {
        return Verdict::Skip("malformed case");
    }
    // the clock may show any year that leaves the search (nine years) and the steps (a few
    // years) inside the representable range
    let lo = cal::days_from_ymd(-5_879_605, 1, 1) * 86_400;
    let hi = cal::days_from_ymd(5_879_595, 1, 1) * 86_400;
    if c.start < lo || c.start >= hi {
        return Verdict::Skip("clock within a few years of the range ends");
    }
    if !(cal::days_from_ymd(1970, 1, 1) * 86_400..cal::days_from_ymd(2400, 1, 1) * 86_400).contains(&c.start) {
        cx.nt("clock_outside_1970..2400");
    }
    if c.start < 0 {
        cx.nt("clock_before_0001");
    }
    let sets = match cron::parse(&c.expr) {
        Parsed::Accept(s) => s,
        Parsed::Reject(_) => return Verdict::Skip("schedule not in the documented grammar"),
        Parsed::Unspecified(w) => return Verdict::Skip(w),
    };
    if !sets.satisfiable() {
        return Verdict::Skip("unsatisfiable schedule");
    }
    let mut sched = match catch(|| CronSchedule::parse(&c.expr)) {
        Ok(Ok(s)) => s,
        Ok(Err(_)) => return Verdict::Skip("schedule rejected by CronSchedule::parse (C16's subject)"),
        Err(p) => return fail("c17.parse_panic", "parse returns", p.short()),
    };
    if sets.dom_restricted() && sets.dow_restricted() {
        cx.nt("both_day_fields_restricted");
    }
    if sets.dom[29] && sets.months[2] && sets.dom_restricted() && !sets.dow_restricted() && !(1..=28).any(|d| sets.dom[d]) {
        cx.nt("only_days_29+");
    }
    // a second schedule polled under the same clock directly before every call; it is held to the
    // same reference (and dropped as soon as it has no match within nine years: what next() does on
    // a schedule that never matches again is not stated)
    let mut other: Option<(CronSchedule, cron::Sets, Option<i64>)> = match &c.other {
        Some(e) if e.len() <= 300 && *e != c.expr => match (cron::parse(e), catch(|| CronSchedule::parse(e))) {
            (Parsed::Accept(so), Ok(Ok(o))) if so.satisfiable() => {
                cx.nt("another_schedule_polled_in_between");
                Some((o, so, None))
            }
            _ => None,
        },
        _ => None,
    };
    let mut clock = c.start;
    let mut last: Option<i64> = None; // minutes
    let mut clone: Option<CronSchedule> = None;
    for (i, st) in c.steps.iter().enumerate() {
        cx.extra_evals += 1;
        let adv = match st.advance {
            -1 => last.map(|l| (l * 60 - clock).max(0)).unwrap_or(0),
            -2 => last.map(|l| (l * 60 + 1 - clock).max(0)).unwrap_or(1),
            a if a < 0 => return Verdict::Skip("malformed case"),
            a => a,
        };
        clock += adv;
        if clock >= hi + 4_000 * 86_400 {
            return Verdict::Skip("clock ran past the window");
        }
        if let Some(l) = last {
            if clock.div_euclid(60) > l {
                cx.nt("clock_overtakes_last_result");
            }
        }
        if st.clone && clone.is_none() {
            clone = Some(sched.clone());
            cx.nt("cloned");
        }
        let now_min = clock.div_euclid(60);
        let base = match last {
            Some(l) if l > now_min => l,
            _ => now_min,
        };
        let Some(want) = sets.next_after(base, 3300) else {
            return Verdict::Skip("no matching minute within nine years");
        };
        if want - base <= 3 * 1440 {
            if sets.next_after_b(base, 3 * 1440 + 1) != Some(want) {
                return fail("harness.oracle_inconsistent", "reference formulations agree", format!("{:?} after {}", c.expr, base));
            }
        }
        if want * 60 >= hi + 4_000 * 86_400 {
            // repeated leap-day results walk four years per call: stop before the search itself
            // would have to look beyond the last representable day (what next() does there is not
            // stated)
            return Verdict::Skip("result within a few years of the range end");
        }
        let (wd, bd) = (cal::ymd_from_days(want.div_euclid(1440)), cal::ymd_from_days(base.div_euclid(1440)));
        if (wd.0, wd.1) != (bd.0, bd.1) {
            cx.nt("carry_across_month_or_year");
        }
        // a real clock also shows fractions of a second; results are whole minutes all the same
        let sub = [0i128, 1, 500_000_000, 999_999_999][((clock as u64 ^ (clock as u64 >> 5) ^ i as u64) % 4) as usize];
        let now_dt = mk_dt(clock as i128 * 1_000_000_000 + sub);
        let mut want_other: Option<i64> = None;
        if let Some((_, so, lo)) = &other {
            let base_o = match lo {
                Some(l) if *l > now_min => *l,
                _ => now_min,
            };
            want_other = so.next_after(base_o, 3300).filter(|w| w * 60 < hi + 4_000 * 86_400);
            if want_other.is_none() {
                other = None;
            }
        }
        let mut got_other: Option<Option<i128>> = None;
        let r = catch(|| {
            astrolabe::verif::set_now(Some(now_dt));
            if let Some((o, _, _)) = other.as_mut() {
                got_other = Some(o.next().map(|d| rd_dt(&d)));
            }
            let a = sched.next();
            let b = clone.as_mut().map(|cl| cl.next());
            (a.map(|d| (rd_dt(&d), d.second(), d.nano())), b.map(|o| o.map(|d| rd_dt(&d))))
        });
        let (got, got_clone) = match r {
            Ok(v) => v,
            Err(p) => return fail("c17.next_panic", format!("call #{} of {:?} at clock {} returns", i + 1, c.expr, fmt_instant(clock as i128 * 1_000_000_000)), p.short()),
        };
        let wi = want as i128 * 60 * 1_000_000_000;
        let what = format!(
            "call #{} of {:?}: clock {}, previous result {}",
            i + 1,
            c.expr,
            fmt_instant(clock as i128 * 1_000_000_000),
            last.map(|l| fmt_instant(l as i128 * 60_000_000_000)).unwrap_or_else(|| "none".into())
        );
        match got {
            None => return fail("c17.iterator_ended", format!("{} -> {}", what, fmt_instant(wi)), "None".to_string()),
            Some((g, sec, nano)) => {
                if g != wi {
                    let sig = if g < wi { "c17.not_matching_or_repeated" } else { "c17.skipped_a_matching_minute" };
                    return fail(sig, format!("{} -> {}", what, fmt_instant(wi)), fmt_instant(g));
                }
                if sec != 0 || nano != 0 {
                    return fail("c17.nonzero_seconds", "results carry zero seconds", format!("{}s {}ns", sec, nano));
                }
            }
        }
        if let (Some(w), Some(g)) = (want_other, got_other) {
            let wi_o = w as i128 * 60 * 1_000_000_000;
            if g != Some(wi_o) {
                return fail(
                    "c17.interleaved_schedule",
                    format!("call #{} of the second schedule {:?} (polled alternately with {:?}) at clock {} -> {}", i + 1, c.other, c.expr, fmt_instant(clock as i128 * 1_000_000_000), fmt_instant(wi_o)),
                    format!("{:?}", g.map(fmt_instant)),
                );
            }
            if let Some((_, _, lo)) = other.as_mut() {
                *lo = Some(w);
            }
        }
        if let Some(gc) = got_clone {
            if gc != Some(wi) {
                return fail("c17.clone_diverges", format!("the clone continues identically ({})", what), format!("{:?}", gc.map(fmt_instant)));
            }
        }
        last = Some(want);
    }
    Verdict::Pass
}

pub fn run(env: &mut Env) {
    let t = env.thorough();
    // the documented example schedules from a fixed start, 40 consecutive calls
    let fixed = ["* * * * *", "*/5 * * * *", "0 10 * * Mon-Fri", "0 0 29 2 *", "59 23 31 12 *", "0 0 31 * *", "0 12 1,15 * mon", "*/17 */5 28-31 feb,mar sat,sun"];
    let mut cases = Vec::new();
    for e in fixed {
        for start in [cal::days_from_ymd(2024, 2, 28) * 86_400 + 86_399, cal::days_from_ymd(2023, 12, 31) * 86_400 + 86_340, cal::days_from_ymd(2100, 2, 28) * 86_400] {
            cases.push(Case { expr: e.to_string(), start, steps: (0..40).map(|k| Step { advance: if k % 7 == 3 { -2 } else { 0 }, clone: k == 5 }).collect(), other: None });
        }
    }
    env.run_list::<History>(cases);
    env.run_random::<History>(if t { 2_000_000 } else { 300_000 });
    env.run_random::<LongHistory>(if t { 500_000 } else { 20_000 });
}
