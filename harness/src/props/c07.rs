//! C07 — months_since / years_since count whole calendar months and years.
use crate::engine::*;
use crate::gen::{self, Inst};
use crate::model::{cal, tl};
use crate::obs::*;
use arbitrary::Unstructured;
use astrolabe::{Date, DateTime, DateUtilities};
use serde::{Deserialize, Serialize};

#[derive(Debug, Clone, Hash, Serialize, Deserialize)]
pub struct PairCase {
    pub a: Inst,
    pub b: Inst,
    pub datetime: bool,
    /// offsets carried by a and b (DateTime only): they must not change any difference
    #[serde(default)]
    pub oa: i32,
    #[serde(default)]
    pub ob: i32,
}

/// model: b + n months as an instant (b's day of month <= 28, so no clamping happens)
fn add_months_inst(b: Inst, n: i64) -> i128 {
    let t = cal::add_months(cal::ymd_from_days(b.day), n);
    cal::days_from_ymd(t.0, t.1, t.2) as i128 * tl::DAY_NS + b.ns as i128
}

enum Vals {
    Date(Date, Date),
    Dt(DateTime, DateTime),
}

fn since(v: &Vals) -> Result<(i32, i32, i32, i32), PanicInfo> {
    catch(|| match v {
        Vals::Date(a, b) => (a.months_since(b), b.months_since(a), a.years_since(b), b.years_since(a)),
        Vals::Dt(a, b) => (a.months_since(b), b.months_since(a), a.years_since(b), b.years_since(a)),
    })
}

fn mk(a: Inst, b: Inst, datetime: bool) -> Vals {
    if datetime {
        Vals::Dt(mk_dt(a.i()), mk_dt(b.i()))
    } else {
        Vals::Date(mk_date(a.day), mk_date(b.day))
    }
}

/// judge one ordered pair; returns the observed (months, years) of a since b on success
fn judge_pair(a: Inst, b: Inst, datetime: bool, cx: &mut Cx) -> Result<(i32, i32), Verdict> {
    let (a, b) = if datetime { (a, b) } else { (Inst { day: a.day, ns: 0 }, Inst { day: b.day, ns: 0 }) };
    let (ya, ma, da) = cal::ymd_from_days(a.day);
    let (yb, mb, db) = cal::ymd_from_days(b.day);
    let (ia, ib) = (a.i(), b.i());
    if ya == yb && ia > ib && (da, a.ns) < (db, b.ns) && ma != mb {
        cx.nt("same_year_day_borrow");
    }
    if (ya < 0) != (yb < 0) {
        cx.nt("across_era");
    }
    if ya != yb {
        let (lo, hi) = if ia < ib { (a.day, b.day) } else { (b.day, a.day) };
        let (yl, _, _) = cal::ymd_from_days(lo);
        for y in [yl, if yl == -1 { 1 } else { yl + 1 }] {
            if cal::is_leap(y) {
                let f29 = cal::days_from_ymd(y, 2, 29);
                if lo < f29 && f29 <= hi && hi - lo < 800 {
                    cx.nt("across_leap_day");
                }
            }
        }
    }
    if a.day == b.day && a.ns != b.ns {
        cx.nt("same_date_different_time");
    }
    if ia < ib {
        cx.label("a<b");
    }
    let kind = if datetime { "DateTime" } else { "Date" };
    let what = format!("{} {} since {}", kind, fmt_instant(ia), fmt_instant(ib));
    let (m_ab, m_ba, y_ab, y_ba) = match since(&mk(a, b, datetime)) {
        Ok(v) => v,
        Err(p) => return Err(fail("c07.panic", format!("{} returns", what), p.short())),
    };
    // antisymmetry, all pairs
    if m_ab as i64 != -(m_ba as i64) {
        return Err(fail("c07.months_antisymmetry", format!("months_since antisymmetric for {}", what), format!("{} vs {}", m_ab, m_ba)));
    }
    if y_ab as i64 != -(y_ba as i64) {
        return Err(fail("c07.years_antisymmetry", format!("years_since antisymmetric for {}", what), format!("{} vs {}", y_ab, y_ba)));
    }
    // bracket, for a >= b with b.day <= 28 (and mirrored for a <= b with a.day <= 28 through antisymmetry)
    let (hi, lo, n, yv, dlo) = if ia >= ib { (ia, b, m_ab as i64, y_ab as i64, db) } else { (ib, a, m_ba as i64, y_ba as i64, da) };
    if dlo <= 28 {
        cx.label("bracket_checked");
        let ok = n >= 0 && add_months_inst(lo, n) <= hi && hi < add_months_inst(lo, n + 1);
        if !ok {
            // the unique n, for the message
            let mut w = 0i64;
            let approx = (cal::astro_from_display(cal::ymd_from_days(hi.div_euclid(tl::DAY_NS) as i64).0) - cal::astro_from_display(cal::ymd_from_days(lo.day).0)) * 12;
            for cand in (approx - 14).max(0)..=approx + 14 {
                if add_months_inst(lo, cand) <= hi && hi < add_months_inst(lo, cand + 1) {
                    w = cand;
                }
            }
            let sig = if ya == yb { "c07.months_same_year_borrow" } else { "c07.months_wrong" };
            return Err(fail(sig, format!("|months_since| of {} = {}", what, w), format!("{}", n)));
        }
        if yv != n / 12 {
            return Err(fail("c07.years_wrong", format!("|years_since| of {} = months/12 = {}", what, n / 12), format!("{}", yv)));
        }
    } else {
        cx.label("earlier_day>28_bracket_not_judged");
    }
    Ok((m_ab, y_ab))
}

pub struct Pair;
impl Prop for Pair {
    type Case = PairCase;
    const NAME: &'static str = "C07.pair";
    const BYTES: usize = 96;
    fn gen(u: &mut Unstructured<'_>) -> arbitrary::Result<PairCase> {
        let a = gen::inst(u, 1)?;
        let k = u.below(6)?;
        let b = match k {
            0 | 1 => {
                // within a few years, day-of-month and time of day close to a's
                let (y, m, d) = cal::ymd_from_days(a.day);
                let t = cal::add_months((y, m, d), u.range_i64(-40, 40)?);
                let dd = (t.2 as i64 + u.range_i64(-1, 1)?).clamp(1, cal::month_len(t.0, t.1) as i64) as u32;
                let day = cal::days_from_ymd(t.0, t.1, dd).clamp(cal::MIN_DAY + 1, cal::MAX_DAY - 1);
                let ns = (a.ns + *u.choose(&[0i64, 1, -1, 1_000_000_000, -1_000_000_000])?).clamp(0, 86_399_999_999_999);
                Inst { day, ns }
            }
            _ => gen::inst_near(u, a, 1)?,
        };
        let datetime = u.coin(1, 2)?;
        let (oa, ob) = if datetime && u.coin(1, 2)? {
            let oa = gen::offset(u)?;
            // both operands in the same zone one time in three
            (oa, if u.coin(1, 3)? { oa } else { gen::offset(u)? })
        } else {
            (0, 0)
        };
        Ok(PairCase { a, b, datetime, oa, ob })
    }
    fn check(c: &PairCase, cx: &mut Cx) -> Verdict {
        if !c.a.valid() || !c.b.valid() || c.oa.unsigned_abs() > 86_399 || c.ob.unsigned_abs() > 86_399 {
            return Verdict::Skip("malformed case");
        }
        let (m0, y0) = match judge_pair(c.a, c.b, c.datetime, cx) {
            Ok(v) => v,
            Err(v) => return v,
        };
        if c.datetime && (c.oa != 0 || c.ob != 0) {
            // an offset changes the reading, never the instant nor any difference (C10): the same
            // pair carrying offsets must give the same counts
            let lo = cal::MIN_DAY + 2;
            let hi = cal::MAX_DAY - 2;
            if c.a.day < lo || c.a.day > hi || c.b.day < lo || c.b.day > hi {
                return Verdict::Pass;
            }
            cx.nt("operands_carry_offsets");
            let r = catch(|| {
                let (a, local) = mk_dt_off_pin(c.a.i(), c.oa);
                if local {
                    cx.nt("operand_carries_Offset::Local");
                }
                let b = mk_dt_off_any(c.b.i(), c.ob);
                // the property's own definition, with the library's add_months and ordering:
                // b.add_months(n) <= a < b.add_months(n + 1)
                let (bu, bl) = (tl::fields(c.b.i()), tl::fields(c.b.i() + c.ob as i128 * tl::NS));
                let bracket = if c.a.i() >= c.b.i() && bu.dom <= 28 && bl.dom <= 28 && c.a.day < cal::MAX_DAY - 70 {
                    let n = a.months_since(&b);
                    if n >= 0 {
                        let (lo, hi) = (b.add_months(n as u32), b.add_months(n as u32 + 1));
                        Some((n, lo <= a, a < hi, rd_dt(&lo), rd_dt(&hi)))
                    } else {
                        None
                    }
                } else {
                    None
                };
                (a.months_since(&b), a.years_since(&b), b.months_since(&a), b.years_since(&a), bracket)
            });
            match r {
                Err(p) => return fail("c07.panic", "months_since / years_since with offsets return", p.short()),
                Ok((m, y, mr, yr, bracket)) => {
                    if let Some((n, lo_ok, hi_ok, lo, hi)) = bracket {
                        cx.nt("bracket_with_the_library's_own_add_months");
                        if !lo_ok || !hi_ok {
                            return fail(
                                "c07.bracket_with_add_months",
                                format!(
                                    "n = a.months_since(b) = {} satisfies b.add_months(n) <= a < b.add_months(n+1) for a = {} [{}], b = {} [{}]",
                                    n, fmt_instant(c.a.i()), c.oa, fmt_instant(c.b.i()), c.ob
                                ),
                                format!("b.add_months(n) = {}, b.add_months(n+1) = {}", fmt_instant(lo), fmt_instant(hi)),
                            );
                        }
                    }
                    if (m, y, mr, yr) != (m0, y0, -m0, -y0) {
                        return fail(
                            "c07.offset_changes_difference",
                            format!(
                                "months/years_since of {} [{}] since {} [{}] = ({}, {}) and reversed ({}, {}), as without offsets",
                                fmt_instant(c.a.i()), c.oa, fmt_instant(c.b.i()), c.ob, m0, y0, -m0, -y0
                            ),
                            format!("({}, {}) / ({}, {})", m, y, mr, yr),
                        );
                    }
                }
            }
        }
        Verdict::Pass
    }
}

#[derive(Debug, Clone, Hash, Serialize, Deserialize)]
pub struct RowCase {
    pub b: Inst,
    pub a0: i64,
    pub len: u32,
    pub datetime: bool,
}

const TODS: [i64; 3] = [0, 43_200_000_000_000, 86_399_999_999_999];

/// one row of a window enumeration: fixed b, every a in a0..a0+len (x 3 times of day for
/// DateTime), each pair judged, and monotonicity of the results along the row
pub struct Row;
impl Prop for Row {
    type Case = RowCase;
    const NAME: &'static str = "C07.row";
    const BYTES: usize = 64;
    fn gen(u: &mut Unstructured<'_>) -> arbitrary::Result<RowCase> {
        let b = gen::inst(u, 2000)?;
        let a0 = b.day - u.range_i64(0, 900)?;
        Ok(RowCase { b, a0, len: u.int_in_range(1..=1500u32)?, datetime: u.coin(1, 2)? })
    }
    fn check(c: &RowCase, cx: &mut Cx) -> Verdict {
        if !c.b.valid() || c.len > 5000 || c.a0 < cal::MIN_DAY || c.a0 + c.len as i64 > cal::MAX_DAY {
            return Verdict::Skip("malformed case");
        }
        let mut prev: Option<(i32, i32, Inst)> = None;
        let mut sub = Cx::default();
        for day in c.a0..c.a0 + c.len as i64 {
            let tods: &[i64] = if c.datetime { &TODS } else { &TODS[..1] };
            for &ns in tods {
                let a = Inst { day, ns };
                sub.labels.clear();
                sub.nontrivial = false;
                cx.extra_evals += 1;
                match judge_pair(a, c.b, c.datetime, &mut sub) {
                    Err(v) => {
                        return match v {
                            Verdict::Fail(mut f) => {
                                f.expected = format!("[row element a = day {} ns {}] {}", day, ns, f.expected);
                                Verdict::Fail(f)
                            }
                            other => other,
                        }
                    }
                    Ok((m, y)) => {
                        if let Some((pm, py, pa)) = prev {
                            if m < pm || y < py {
                                return fail(
                                    "c07.not_monotone",
                                    format!("months/years_since(b = {}) non-decreasing from a = {} to a = {}", fmt_instant(c.b.i()), fmt_instant(pa.i()), fmt_instant(a.i())),
                                    format!("months {} -> {}, years {} -> {}", pm, m, py, y),
                                );
                            }
                        }
                        prev = Some((m, y, a));
                    }
                }
                if sub.nontrivial {
                    cx.extra_nontrivial += 1;
                }
                for l in sub.labels.clone() {
                    cx.label(l);
                }
            }
        }
        cx.nontrivial = true;
        Verdict::Pass
    }
}

fn window_rows(env: &mut Env, lo: i64, hi: i64, datetime: bool, b_tods: &'static [i64]) {
    let n = (hi - lo + 1) as u64;
    env.run_enum::<Row, _>(n, move |i| {
        let bday = lo + i as i64;
        b_tods.iter().map(move |&ns| RowCase { b: Inst { day: bday, ns }, a0: lo, len: (hi - lo + 1) as u32, datetime })
    });
}

/// Exact anniversaries over one whole 400-year cycle: for every start month of the cycle beginning
/// in `base_year` (start days 1, 15 and 28) and every count n in 1..=4812, a = b + n months must
/// give n (and n / 12 years), and the day (or nanosecond) before it n - 1. Distances of centuries
/// are where an answer derived from the day distance (mean months, mean years) drifts away from the
/// calendar; no window of a few years contains them.
fn anniversaries(env: &mut Env, base_year: i64) {
    const DOMS: [u32; 3] = [1, 15, 28];
    env.run_fast::<Pair>(4800 * 3, move |c, fs| {
        let mi = (c / 3) as i64;
        let dom = DOMS[(c % 3) as usize];
        let astro = cal::astro_from_display(base_year) + mi.div_euclid(12);
        let (y, m) = (cal::display_from_astro(astro), (mi.rem_euclid(12) + 1) as u32);
        let bday = cal::days_from_ymd(y, m, dom);
        let datetime = dom == 15;
        let ns = if datetime { 43_200_000_000_000 + (mi % 1000) * 1_000_000 + 1 } else { 0 };
        let b = Inst { day: bday, ns };
        let mut out = Vec::new();
        if bday <= cal::MIN_DAY + 1 {
            return out;
        }
        let bd = mk_date(bday);
        let bt = mk_dt(b.i());
        for n in 1..=4812i64 {
            let t = cal::add_months((y, m, dom), n);
            let aday = cal::days_from_ymd(t.0, t.1, t.2);
            if aday >= cal::MAX_DAY - 1 {
                break;
            }
            fs.evaluations += 2;
            fs.nontrivial += 2;
            let ok = catch(|| {
                if datetime {
                    let a = mk_dt(Inst { day: aday, ns }.i());
                    let a1 = mk_dt(Inst { day: aday, ns }.i() - 1);
                    (a.months_since(&bt) as i64, a1.months_since(&bt) as i64, a.years_since(&bt) as i64, a1.years_since(&bt) as i64, bt.months_since(&a) as i64)
                } else {
                    let a = mk_date(aday);
                    let a1 = mk_date(aday - 1);
                    (a.months_since(&bd) as i64, a1.months_since(&bd) as i64, a.years_since(&bd) as i64, a1.years_since(&bd) as i64, bd.months_since(&a) as i64)
                }
            })
            .map(|v| v == (n, n - 1, n / 12, (n - 1) / 12, -n))
            .unwrap_or(false);
            if !ok {
                out.push(PairCase { a: Inst { day: aday, ns }, b, datetime, oa: 0, ob: 0 });
                let before = if datetime { Inst { day: aday, ns: ns - 1 } } else { Inst { day: aday - 1, ns: 0 } };
                out.push(PairCase { a: before, b, datetime, oa: 0, ob: 0 });
                break;
            }
        }
        out
    });
}

pub fn run(env: &mut Env) {
    let t = env.thorough();
    let d = |y, m, dd| cal::days_from_ymd(y, m, dd);
    anniversaries(env, 1600);
    anniversaries(env, -250);
    if t {
        anniversaries(env, 2000);
        anniversaries(env, -5_879_000);
        anniversaries(env, 5_878_000);
        anniversaries(env, -100_300);
    }
    env.exhaustive_parts.push("C07: every start month (days 1, 15, 28; the 15th as DateTime) of the 400-year cycles beginning in 1600 and -250 (thorough: also 2000, -5879000, 5878000, -100300) x every count of 1..=4812 months: the exact anniversary and the day / nanosecond before it".into());
    if t {
        window_rows(env, d(2019, 1, 1), d(2025, 1, 1), false, &TODS[..1]);
        window_rows(env, d(-3, 1, 1), d(4, 12, 31), false, &TODS[..1]);
        window_rows(env, d(-9, 1, 1), d(-3, 12, 31), false, &TODS[..1]);
        window_rows(env, d(2019, 6, 1), d(2021, 6, 1), true, &TODS);
        window_rows(env, d(-2, 6, 1), d(2, 6, 1), true, &TODS);
        env.exhaustive_parts.push("C07: all ordered pairs of dates in 2019-01-01..2025-01-01, -3-01-01..4-12-31, -9-01-01..-3-12-31; all pairs of datetimes (3 times of day each) in 2019-06-01..2021-06-01 and -2-06-01..2-06-01".into());
    } else {
        window_rows(env, d(2020, 1, 1), d(2023, 1, 1), false, &TODS[..1]);
        window_rows(env, d(-2, 1, 1), d(2, 12, 31), false, &TODS[..1]);
        window_rows(env, d(-6, 11, 1), d(-4, 3, 1), false, &TODS[..1]);
        window_rows(env, d(2019, 11, 1), d(2020, 4, 1), true, &TODS);
        window_rows(env, d(-1, 10, 1), d(1, 3, 1), true, &TODS);
        env.exhaustive_parts.push("C07: all ordered pairs of dates in 2020-01-01..2023-01-01, -2-01-01..2-12-31, -6-11-01..-4-03-01; all pairs of datetimes (3 times of day each) in 2019-11-01..2020-04-01 and -1-10-01..1-03-01".into());
    }
    env.run_random::<Pair>(if t { 5_000_000 } else { 1_500_000 });
    env.run_random::<Row>(if t { 20_000 } else { 4_000 });
}
