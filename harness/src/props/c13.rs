//! C13 — RFC 3339 timestamps are read and written exactly.
use crate::engine::*;
use crate::gen::{self, Inst};
use crate::model::{cal, tl};
use crate::obs::*;
use arbitrary::Unstructured;
use astrolabe::{DateTime, Offset, OffsetUtilities, Precision};
use serde::{Deserialize, Serialize};

// ---------------------------------------------------------------------------------------
// independent RFC 3339 reader (from the ABNF of RFC 3339 section 5.6, upper-case T/Z only)
// ---------------------------------------------------------------------------------------

#[derive(Debug, Clone, PartialEq)]
pub struct Stamp {
    pub y: u32,
    pub mo: u32,
    pub d: u32,
    pub h: u32,
    pub mi: u32,
    pub s: u32,
    pub frac: String,
    /// None = "Z"
    pub zone: Option<(bool, u32, u32)>,
}

fn digits(b: &[u8], at: usize, n: usize) -> Option<u32> {
    if at + n > b.len() {
        return None;
    }
    let mut v = 0u32;
    for &c in &b[at..at + n] {
        if !c.is_ascii_digit() {
            return None;
        }
        v = v * 10 + (c - b'0') as u32;
    }
    Some(v)
}

/// parses the *shape* only; field ranges are judged separately
pub fn read_shape(s: &str) -> Option<Stamp> {
    let b = s.as_bytes();
    let y = digits(b, 0, 4)?;
    if b.get(4) != Some(&b'-') {
        return None;
    }
    let mo = digits(b, 5, 2)?;
    if b.get(7) != Some(&b'-') {
        return None;
    }
    let d = digits(b, 8, 2)?;
    if b.get(10) != Some(&b'T') {
        return None;
    }
    let h = digits(b, 11, 2)?;
    if b.get(13) != Some(&b':') {
        return None;
    }
    let mi = digits(b, 14, 2)?;
    if b.get(16) != Some(&b':') {
        return None;
    }
    let sec = digits(b, 17, 2)?;
    let mut at = 19;
    let mut frac = String::new();
    if b.get(at) == Some(&b'.') {
        at += 1;
        while at < b.len() && b[at].is_ascii_digit() {
            frac.push(b[at] as char);
            at += 1;
        }
        if frac.is_empty() {
            return None;
        }
    }
    let zone = match b.get(at) {
        Some(b'Z') => {
            at += 1;
            None
        }
        Some(c @ (b'+' | b'-')) => {
            let zh = digits(b, at + 1, 2)?;
            if b.get(at + 3) != Some(&b':') {
                return None;
            }
            let zm = digits(b, at + 4, 2)?;
            let neg = *c == b'-';
            at += 6;
            Some((neg, zh, zm))
        }
        _ => return None,
    };
    if at != b.len() {
        return None;
    }
    Some(Stamp { y, mo, d, h, mi, s: sec, frac, zone })
}

impl Stamp {
    pub fn render(&self) -> String {
        let mut s = format!("{:04}-{:02}-{:02}T{:02}:{:02}:{:02}", self.y, self.mo, self.d, self.h, self.mi, self.s);
        if !self.frac.is_empty() {
            s.push('.');
            s.push_str(&self.frac);
        }
        match self.zone {
            None => s.push('Z'),
            Some((neg, zh, zm)) => s.push_str(&format!("{}{:02}:{:02}", if neg { '-' } else { '+' }, zh, zm)),
        }
        s
    }
    pub fn fields_valid(&self) -> bool {
        self.y >= 1
            && cal::exists(self.y as i64, self.mo, self.d)
            && self.h <= 23
            && self.mi <= 59
            && self.s <= 59
            && self.zone.map(|(_, zh, zm)| zh <= 23 && zm <= 59).unwrap_or(true)
    }
    pub fn offset(&self) -> i32 {
        match self.zone {
            None => 0,
            Some((neg, zh, zm)) => {
                let o = (zh * 3600 + zm * 60) as i32;
                if neg {
                    -o
                } else {
                    o
                }
            }
        }
    }
    /// (instant with the fraction truncated to 9 digits, true if the digits beyond the ninth
    /// would round the nanosecond up)
    pub fn instant(&self) -> (i128, bool) {
        let day = cal::days_from_ymd(self.y as i64, self.mo, self.d);
        let mut ns: i128 = 0;
        for (k, ch) in self.frac.chars().take(9).enumerate() {
            ns += (ch as u8 - b'0') as i128 * 10i128.pow(8 - k as u32);
        }
        let round_up = self.frac.chars().nth(9).map(|c| c >= '5').unwrap_or(false);
        let local = day as i128 * tl::DAY_NS + (self.h as i128 * 3600 + self.mi as i128 * 60 + self.s as i128) * tl::NS + ns;
        (local - self.offset() as i128 * tl::NS, round_up)
    }
}

// ---------------------------------------------------------------------------------------
// write side
// ---------------------------------------------------------------------------------------

#[derive(Debug, Clone, Hash, Serialize, Deserialize)]
pub struct WriteCase {
    pub i: Inst,
    pub off: i32,
    /// 0 Seconds, 1 Centis, 2 Millis, 3 Micros, 4 Nanos
    pub prec: u8,
    /// != 0: the value carries `Offset::Local` under an injected zone whose offset at this pinned
    /// Unix time is `off`
    #[serde(default)]
    pub local_now: i64,
}

const PREC_DIGITS: [usize; 5] = [0, 2, 3, 6, 9];

fn precision(p: u8) -> Precision {
    match p {
        0 => Precision::Seconds,
        1 => Precision::Centis,
        2 => Precision::Millis,
        3 => Precision::Micros,
        _ => Precision::Nanos,
    }
}

pub struct Write;
impl Prop for Write {
    type Case = WriteCase;
    const NAME: &'static str = "C13.write";
    const BYTES: usize = 64;
    fn gen(u: &mut Unstructured<'_>) -> arbitrary::Result<WriteCase> {
        let i = Inst::from_i(gen::instant_y1_9999(u)?);
        let local_now = if u.coin(1, 6)? { u.range_i64(-1_900_000_000, 2_100_000_000)? } else { 0 };
        Ok(WriteCase { i, off: gen::offset_minutes(u)?, prec: u.below(5)? as u8, local_now })
    }
    fn check(c: &WriteCase, cx: &mut Cx) -> Verdict {
        if !c.i.valid() || c.off % 60 != 0 || c.off.unsigned_abs() > 86_340 || c.prec > 4 {
            return Verdict::Skip("malformed case");
        }
        let local = c.i.i() + c.off as i128 * tl::NS;
        let (fu, fl) = (tl::fields(c.i.i()), tl::fields(local));
        if !(1..=9999).contains(&fu.year) || !(1..=9999).contains(&fl.year) {
            return Verdict::Skip("UTC or local year outside 0001..=9999");
        }
        if c.off != 0 {
            cx.nt("non_zero_offset");
        }
        if fu.day != fl.day && (fu.month != fl.month) {
            cx.nt("offset_changes_month_or_year");
        }
        if c.prec != 0 && c.prec != 4 {
            cx.nt("truncating_precision");
        }
        if fl.subsec != 0 {
            cx.label("non_zero_subsecond");
        }
        let use_local = c.local_now != 0 && local_now_ok(c.local_now);
        if use_local {
            cx.nt("offset_carried_as_Offset::Local");
            pin_local(c.off, c.local_now);
        }
        let r = catch(|| if use_local { mk_dt_off_any(c.i.i(), 0).set_offset(Offset::Local).format_rfc3339(precision(c.prec)) } else { mk_dt_off_any(c.i.i(), c.off).format_rfc3339(precision(c.prec)) });
        unpin_local();
        let s = match r {
            Ok(s) => s,
            Err(p) => return fail("c13.format_rfc3339_panic", "format_rfc3339 returns", p.short()),
        };
        let what = format!("format_rfc3339({:?}) of {} [{}]", precision(c.prec), fmt_instant(c.i.i()), c.off);
        let Some(st) = read_shape(&s) else {
            return fail("c13.write_not_grammatical", format!("{} matches the RFC 3339 date-time grammar", what), format!("{:?}", s));
        };
        if !st.fields_valid() {
            return fail("c13.write_field_out_of_range", format!("{} has in-range fields", what), format!("{:?}", s));
        }
        if st.frac.len() != PREC_DIGITS[c.prec as usize] {
            return fail("c13.write_fraction_digits", format!("{} has {} fraction digits", what, PREC_DIGITS[c.prec as usize]), format!("{:?}", s));
        }
        let unit = 10i128.pow(9 - PREC_DIGITS[c.prec as usize] as u32);
        let want = c.i.i() - c.i.i().rem_euclid(unit);
        if st.instant().0 != want {
            return fail("c13.write_wrong_instant", format!("{} denotes {}", what, fmt_instant(want)), format!("{:?} = {}", s, fmt_instant(st.instant().0)));
        }
        if st.offset() != c.off {
            return fail("c13.write_wrong_offset", format!("{} carries offset {}", what, c.off), format!("{:?}", s));
        }
        Verdict::Pass
    }
}

// ---------------------------------------------------------------------------------------
// read side
// ---------------------------------------------------------------------------------------

#[derive(Debug, Clone, Hash, Serialize, Deserialize)]
pub struct ReadCase {
    pub y: u32,
    pub mo: u32,
    pub d: u32,
    pub h: u32,
    pub mi: u32,
    pub s: u32,
    pub frac: String,
    /// 0 = Z, 1 = '+', 2 = '-'
    pub zsign: u8,
    pub zh: u32,
    pub zm: u32,
    /// use str::parse::<DateTime>() instead of parse_rfc3339
    pub via_from_str: bool,
}

pub struct Read;
impl Prop for Read {
    type Case = ReadCase;
    const NAME: &'static str = "C13.read";
    const BYTES: usize = 128;
    fn gen(u: &mut Unstructured<'_>) -> arbitrary::Result<ReadCase> {
        let y = match u.below(6)? {
            0 => *u.choose(&[1u32, 2, 4, 100, 400, 1600, 1900, 2000, 2024, 9999])?,
            1 => u.int_in_range(1..=9999u32)?,
            _ => u.int_in_range(1900..=2100u32)?,
        };
        let mo = 1 + u.below(12)? as u32;
        let ml = cal::month_len(y as i64, mo);
        let d = match u.below(4)? {
            0 => 1,
            1 => ml,
            _ => 1 + u.below(ml as u64)? as u32,
        };
        let pickb = |u: &mut Unstructured, max: u32| -> arbitrary::Result<u32> {
            Ok(match u.below(4)? {
                0 => 0,
                1 => max,
                _ => u.int_in_range(0..=max)?,
            })
        };
        let (h, mi, s) = (pickb(u, 23)?, pickb(u, 59)?, pickb(u, 59)?);
        let flen = match u.below(6)? {
            0 => 0usize,
            1 => *u.choose(&[1usize, 9, 10, 19, 20, 21, 40])?,
            // "any number of fraction digits": lengths at and around the sizes where a length is
            // capped, buffered or stored in a narrower type
            2 => (*u.choose(&[31usize, 32, 63, 64, 65, 127, 128, 129, 255, 256, 257, 1023, 1024, 1025, 4096, 65_535, 65_536])? as i64 + u.range_i64(-1, 1)?) as usize,
            _ => u.int_in_range(1..=40usize)?,
        };
        let fstyle = if flen > 40 { u.below(3)? } else { u.below(5)? };
        let mut frac = String::new();
        for k in 0..flen {
            frac.push(match fstyle {
                0 => '9',
                1 => '0',
                2 => {
                    if k + 1 == flen {
                        '1'
                    } else {
                        '0'
                    }
                }
                _ => (b'0' + u.below(10)? as u8) as char,
            });
        }
        let zsign = u.below(3)? as u8;
        let (zh, zm) = (pickb(u, 23)?, pickb(u, 59)?);
        let mut c = ReadCase { y, mo, d, h, mi, s, frac, zsign, zh, zm, via_from_str: u.coin(1, 3)? };
        // local time and offset chosen so that the UTC time of day is exactly 00:00:00 (or 24:00:00
        // of the local day): the carry point of the local -> UTC conversion
        if c.zsign != 0 && u.coin(1, 6)? {
            let off_min = (c.zh * 60 + c.zm) as i64;
            let local_min = if c.zsign == 1 { off_min } else { (1440 - off_min) % 1440 };
            c.h = (local_min / 60) as u32;
            c.mi = (local_min % 60) as u32;
            c.s = 0;
            if u.coin(1, 2)? {
                c.frac = String::new();
            }
        }
        // field mutants (one field out of range)
        if u.coin(1, 4)? {
            match u.below(11)? {
                0 => c.mo = 0,
                1 => c.mo = 13,
                2 => c.d = 0,
                3 => c.d = 32,
                4 => c.d = cal::month_len(c.y as i64, c.mo) + 1,
                5 => c.h = 24,
                6 => c.mi = 60,
                7 => c.s = 61,
                8 => {
                    c.zh = 24;
                    if c.zsign == 0 {
                        c.zsign = 1;
                    }
                }
                9 => {
                    c.zm = 60;
                    if c.zsign == 0 {
                        c.zsign = 2;
                    }
                }
                _ => {
                    c.mo = 2;
                    c.d = 29;
                    if cal::is_leap(c.y as i64) {
                        c.y = if c.y % 400 == 0 { 1900 } else { c.y + 1 };
                    }
                }
            }
        }
        Ok(c)
    }
    fn check(c: &ReadCase, cx: &mut Cx) -> Verdict {
        if c.y > 9999 || c.mo > 99 || c.d > 99 || c.h > 99 || c.mi > 99 || c.s > 99 || c.zh > 99 || c.zm > 99 || c.zsign > 2 || c.frac.len() > 1 << 17 || !c.frac.chars().all(|ch| ch.is_ascii_digit()) {
            return Verdict::Skip("malformed case");
        }
        let st = Stamp {
            y: c.y,
            mo: c.mo,
            d: c.d,
            h: c.h,
            mi: c.mi,
            s: c.s,
            frac: c.frac.clone(),
            zone: if c.zsign == 0 { None } else { Some((c.zsign == 2, c.zh, c.zm)) },
        };
        if c.y == 0 {
            return Verdict::Skip("year 0000 unspecified");
        }
        if c.s == 60 {
            return Verdict::Skip("leap second :60 unspecified");
        }
        let text = st.render();
        if read_shape(&text).as_ref() != Some(&st) {
            return fail("harness.oracle_inconsistent", "model reader reads back the model writer", text);
        }
        let valid = st.fields_valid();
        if valid {
            cx.label("valid");
            if !matches!(c.frac.len(), 0 | 1 | 9) {
                cx.nt("fraction_length_not_1_or_9");
            }
            if c.frac.len() > 9 {
                cx.nt("fraction_longer_than_9");
            }
            if c.frac.len() > 60 {
                cx.nt("fraction_longer_than_60_digits");
            }
            if c.frac.len() >= 20 {
                cx.nt("fraction_20+_digits");
            }
            if st.offset() != 0 {
                cx.nt("non_zero_offset");
            }
            let (i, _) = st.instant();
            let local = i + st.offset() as i128 * tl::NS;
            if tl::fields(i).month != tl::fields(local).month {
                cx.nt("offset_changes_month_or_year");
            }
        } else {
            cx.nt("field_mutant");
        }
        let r = catch(|| {
            let r = if c.via_from_str { text.parse::<DateTime>() } else { DateTime::parse_rfc3339(&text) };
            r.map(|d| (rd_dt(&d), d.get_offset(), canonical_dt(&d), d.set_offset(Offset::Fixed(0)).format_rfc3339(Precision::Nanos)))
        });
        match (valid, r) {
            (_, Err(p)) => fail("c13.parse_rfc3339_panic", format!("parse_rfc3339({:?}) returns a Result", text), p.short()),
            (false, Ok(Ok((i, ..)))) => fail("c13.read_accepts_out_of_range_field", format!("parse_rfc3339({:?}) = Err", text), format!("Ok({})", fmt_instant(i))),
            (false, Ok(Err(_))) => Verdict::Pass,
            (true, Ok(Err(e))) => fail("c13.read_rejects_grammatical", format!("parse_rfc3339({:?}) is Ok", text), format!("Err({})", e)),
            (true, Ok(Ok((i, off, canon, utc_text)))) => {
                let (want, round_up) = st.instant();
                if tl::fields(want).day_ns < 1_000_000_000 && st.offset() != 0 {
                    cx.nt("utc_time_exactly_at_midnight");
                }
                if let Err(why) = canon {
                    return fail("c13.read_non_canonical_value", format!("parse_rfc3339({:?}) is a canonical value of its instant", text), why);
                }
                // written back at UTC it must be a grammatical timestamp of the same instant (when the
                // UTC year is still inside 0001..=9999)
                let utc_year = tl::fields(i).year;
                match read_shape(&utc_text) {
                    _ if !(1..=9999).contains(&utc_year) => {}
                    Some(back) if back.fields_valid() && back.instant().0 == i && back.offset() == 0 => {}
                    _ => {
                        return fail(
                            "c13.read_then_write_utc",
                            format!("parse_rfc3339({:?}).set_offset(0).format_rfc3339(Nanos) denotes {}", text, fmt_instant(i)),
                            format!("{:?}", utc_text),
                        )
                    }
                }
                if i != want && !(round_up && i == want + 1) {
                    let sig = if c.frac.len() > 9 { "c13.read_fraction_over_9_digits" } else { "c13.read_wrong_instant" };
                    return fail(sig, format!("parse_rfc3339({:?}) = {}", text, fmt_instant(want)), fmt_instant(i));
                }
                if off != Offset::Fixed(st.offset()) {
                    return fail("c13.read_wrong_offset", format!("parse_rfc3339({:?}) carries offset {}", text, st.offset()), format!("{:?}", off));
                }
                Verdict::Pass
            }
        }
    }
}

/// a 64-bit mix for the per-day choices of the sweeps
fn mix64(mut x: u64) -> u64 {
    x = x.wrapping_add(0x9E37_79B9_7F4A_7C15);
    x = (x ^ (x >> 30)).wrapping_mul(0xBF58_476D_1CE4_E5B9);
    x = (x ^ (x >> 27)).wrapping_mul(0x94D0_49BB_1331_11EB);
    x ^ (x >> 31)
}

pub fn run(env: &mut Env) {
    let t = env.thorough();
    // every day of the years 0001..=9999 once on the write side and once on the read side (time of
    // day, offset, precision, fraction chosen from the day number and the seed): a defect confined
    // to a band of days anywhere in the RFC 3339 domain is met
    let first = cal::days_from_ymd(1, 1, 2);
    let last = cal::days_from_ymd(9999, 12, 30);
    const CH: i64 = 4096;
    let n_chunks = ((last - first) / CH + 1) as u64;
    let seed = env.seed;
    let reps: i64 = if t { 8 } else { 1 };
    env.run_enum::<Write, _>(n_chunks, move |c| {
        let lo = first + c as i64 * CH;
        (lo..(lo + CH).min(last + 1)).flat_map(move |day| {
            (0..reps).map(move |r| {
                let h = mix64(day as u64 ^ seed.rotate_left(17) ^ (r as u64) << 50);
                let ns = (h % 86_400) as i64 * 1_000_000_000 + [0i64, 0, 1, 500_000_000, 999_999_999, 123_456_789][(h >> 20) as usize % 6];
                let off = [0i32, 0, 3_600, -18_000, 19_800, 86_340, -86_340, 60, -60, 45_900][(h >> 28) as usize % 10];
                WriteCase { i: Inst { day, ns }, off, prec: ((h >> 36) % 5) as u8, local_now: 0 }
            })
        })
    });
    env.run_enum::<Read, _>(n_chunks, move |c| {
        let lo = first + c as i64 * CH;
        (lo..(lo + CH).min(last + 1)).flat_map(move |day| {
            (0..reps).map(move |r| {
                let h = mix64(day as u64 ^ seed.rotate_left(29) ^ 0xABCD ^ (r as u64) << 50);
                let (y, mo, d) = cal::ymd_from_days(day);
                let frac = ["", "", "5", "000", "123456789", "999999999", "9999999999"][(h >> 8) as usize % 7].to_string();
                let zsign = ((h >> 16) % 3) as u8;
                ReadCase {
                    y: y as u32,
                    mo,
                    d,
                    h: ((h >> 20) % 24) as u32,
                    mi: ((h >> 26) % 60) as u32,
                    s: ((h >> 33) % 60) as u32,
                    frac,
                    zsign,
                    zh: if zsign == 0 { 0 } else { ((h >> 40) % 24) as u32 },
                    zm: if zsign == 0 { 0 } else { ((h >> 46) % 60) as u32 },
                    via_from_str: (h >> 52) % 2 == 0,
                }
            })
        })
    });
    env.exhaustive_parts.push("C13: every day of the years 0001..=9999 (2 January 0001 .. 30 December 9999) once on the write side and once on the read side, the other components chosen from the day number and the seed".into());
    env.run_random::<Write>(if t { 10_000_000 } else { 1_500_000 });
    env.run_random::<Read>(if t { 10_000_000 } else { 1_500_000 });
}
