//! C16 — a cron expression denotes exactly the documented value sets per field.
use crate::engine::*;
use crate::model::cal;
use crate::model::cron::{self, FieldKind, Parsed, Sets};
use crate::obs::*;
use arbitrary::Unstructured;
use astrolabe::errors::AstrolabeError;
use astrolabe::{CronSchedule, DateTime, DateUtilities, TimeUtilities};
use serde::{Deserialize, Serialize};

#[derive(Debug, Clone, Hash, Serialize, Deserialize)]
pub struct Case {
    pub expr: String,
    pub mutated: bool,
    /// pinned clock (seconds since 0001-01-01) for the whole-expression read-back; 0 = 2024-02-28T12:34:56
    #[serde(default)]
    pub start: i64,
}

const KINDS: [FieldKind; 5] = [FieldKind::Minute, FieldKind::Hour, FieldKind::Dom, FieldKind::Month, FieldKind::Dow];
const MONTHS: [&str; 12] = ["jan", "feb", "mar", "apr", "may", "jun", "jul", "aug", "sep", "oct", "nov", "dec"];
const DAYS: [&str; 7] = ["sun", "mon", "tue", "wed", "thu", "fri", "sat"];

fn rand_case(u: &mut Unstructured, s: &str) -> arbitrary::Result<String> {
    let mut out = String::new();
    let style = u.int_in_range(0..=3u8)?;
    for (i, c) in s.chars().enumerate() {
        let up = match style {
            0 => false,
            1 => true,
            2 => i == 0,
            _ => u.ratio(1, 2)?,
        };
        out.push(if up { c.to_ascii_uppercase() } else { c });
    }
    Ok(out)
}

fn gen_value(u: &mut Unstructured, kind: FieldKind, v: u32) -> arbitrary::Result<String> {
    Ok(match kind {
        FieldKind::Month if u.ratio(1, 3)? => rand_case(u, MONTHS[v as usize - 1])?,
        FieldKind::Dow if u.ratio(1, 3)? => rand_case(u, DAYS[(v % 7) as usize])?,
        _ => v.to_string(),
    })
}

pub fn gen_field(u: &mut Unstructured, kind: FieldKind, sparse: bool) -> arbitrary::Result<String> {
    let (lo, hi) = kind.range();
    let n_items = if sparse { 1 } else { 1 + u.int_in_range(0..=3usize)? };
    let mut items = Vec::new();
    for _ in 0..n_items {
        let k = u.int_in_range(0..=9u8)?;
        items.push(match k {
            0 | 1 if !sparse => "*".to_string(),
            2 | 3 => {
                let top = if kind == FieldKind::Dow { 6 } else { hi };
                let s = u.int_in_range(1..=top + 1)?;
                format!("*/{}", s)
            }
            4 | 5 | 6 => {
                let a = u.int_in_range(lo..=hi)?;
                let b = u.int_in_range(a..=hi)?;
                let b = if sparse { a.max(b.min(a + 2)) } else { b };
                // name ranges only when the mapped numbers stay ordered (7 cannot be a name)
                let (sa, sb) = if kind == FieldKind::Dow && (a == 7 || b == 7) { (a.to_string(), b.to_string()) } else { (gen_value(u, kind, a)?, gen_value(u, kind, b)?) };
                format!("{}-{}", sa, sb)
            }
            _ => {
                let v = u.int_in_range(lo..=hi)?;
                if kind == FieldKind::Dow && v == 7 {
                    "7".to_string()
                } else {
                    gen_value(u, kind, v)?
                }
            }
        });
    }
    Ok(items.join(","))
}

/// Long but valid expressions: lists with many items and long whitespace runs, with the total
/// length at and around 2^7 .. 2^16 bytes (the grammar puts no limit on either)
fn gen_long_expr(u: &mut Unstructured) -> arbitrary::Result<String> {
    let mut fields = Vec::new();
    let long_field = u.int_in_range(0..=4usize)?;
    for (i, k) in KINDS.iter().enumerate() {
        let base = gen_field(u, *k, false)?;
        if i == long_field || u.ratio(1, 4)? {
            let n = (*u.choose(&[16usize, 32, 43, 64, 86, 128, 256, 400, 1024])? as i64 + u.range_i64(-1, 1)?) as usize;
            let items: Vec<&str> = base.split(',').collect();
            fields.push((0..n).map(|j| items[j % items.len()]).collect::<Vec<_>>().join(","));
        } else {
            fields.push(base);
        }
    }
    let pad = if u.ratio(1, 3)? { (*u.choose(&[15usize, 64, 200, 250, 255, 256, 1024, 65_536])? as i64 + u.range_i64(-1, 1)?) as usize } else { 1 };
    let at = u.int_in_range(0..=5usize)?;
    let mut s = String::new();
    for (i, f) in fields.iter().enumerate() {
        if i == at {
            s.push_str(&" ".repeat(pad));
        } else if i > 0 {
            s.push(' ');
        }
        if i == at && i == 0 && pad == 1 {
            s.clear();
        }
        s.push_str(f);
    }
    if at == 5 {
        s.push_str(&" ".repeat(pad));
    }
    Ok(s)
}

pub fn gen_expr(u: &mut Unstructured) -> arbitrary::Result<String> {
    if u.ratio(1, 12)? {
        return gen_long_expr(u);
    }
    let mut s = String::new();
    let ws = |u: &mut Unstructured| -> arbitrary::Result<String> {
        Ok(match u.int_in_range(0..=7u8)? {
            0 => "\t".to_string(),
            1 => "  ".to_string(),
            2 => " \t ".to_string(),
            _ => " ".to_string(),
        })
    };
    if u.ratio(1, 8)? {
        s.push_str(&ws(u)?);
    }
    for (i, k) in KINDS.iter().enumerate() {
        if i > 0 {
            s.push_str(&ws(u)?);
        }
        s.push_str(&gen_field(u, *k, false)?);
    }
    if u.ratio(1, 8)? {
        s.push_str(&ws(u)?);
    }
    Ok(s)
}

fn mutate(u: &mut Unstructured, s: &str) -> arbitrary::Result<String> {
    const INS: &[char] = &['0', '1', '5', '7', '9', '*', ',', '-', '/', ' ', 'a', 'n', 'M', 'Z', '+', '\t', 'é', '\u{a0}'];
    let mut cs: Vec<char> = s.chars().collect();
    let pos = if cs.is_empty() { 0 } else { u.int_in_range(0..=cs.len() - 1)? };
    match u.int_in_range(0..=9u8)? {
        9 => {
            // characters whose Unicode case mapping yields an ASCII letter (long s, dotless i, Kelvin
            // sign, dotted capital I): a lookup that upper- or lower-cases with the Unicode tables
            // instead of the ASCII ones takes them for that letter
            let spots: Vec<usize> = cs.iter().enumerate().filter(|(_, c)| matches!(c.to_ascii_lowercase(), 's' | 'i' | 'k')).map(|(i, _)| i).collect();
            if let Some(&at) = spots.get(u.below(spots.len().max(1) as u64)? as usize) {
                cs[at] = match cs[at].to_ascii_lowercase() {
                    's' => '\u{17f}',
                    'k' => '\u{212a}',
                    _ => *u.choose(&['\u{131}', '\u{130}'])?,
                };
            } else {
                // no such letter: put a name that has one into the month / weekday field first
                let mut fields: Vec<String> = s.split_whitespace().map(|f| f.to_string()).collect();
                if fields.len() == 5 {
                    if u.ratio(1, 2)? {
                        fields[3] = (*u.choose(&["\u{17f}ep", "\u{17f}EP", "Sep-\u{17f}ep", "1,\u{17f}ep"])?).to_string();
                    } else {
                        fields[4] = (*u.choose(&["\u{17f}un", "\u{17f}at", "fr\u{131}", "FR\u{130}", "mon-fr\u{131}", "\u{17f}UN"])?).to_string();
                    }
                    return Ok(fields.join(" "));
                }
            }
        }
        7 | 8 => {
            // a name where it does not belong: one item of one field replaced by a month or weekday
            // name (any case) - month names in the weekday field, weekday names in the month field,
            // either in a numeric field; or a prefix / extension of a name
            let mut fields: Vec<String> = s.split_whitespace().map(|f| f.to_string()).collect();
            if !fields.is_empty() {
                let k = u.int_in_range(0..=fields.len() - 1)?;
                let base = if u.ratio(1, 2)? { *u.choose(&MONTHS)? } else { *u.choose(&DAYS)? };
                let name = match u.int_in_range(0..=5u8)? {
                    0 => base[..2].to_string(),
                    1 => format!("{}{}", base, u.choose(&["e", "day", "s", "1", "."])?),
                    _ => rand_case(u, base)?,
                };
                let mut items: Vec<String> = fields[k].split(',').map(|i| i.to_string()).collect();
                let j = u.int_in_range(0..=items.len() - 1)?;
                items[j] = match (items[j].split_once('-'), u.int_in_range(0..=2u8)?) {
                    (Some((a, _)), 0) => format!("{}-{}", a, name),
                    (Some((_, b)), 1) => format!("{}-{}", name, b),
                    _ => name,
                };
                fields[k] = items.join(",");
                return Ok(fields.join(" "));
            }
        }
        0 if !cs.is_empty() => {
            cs.remove(pos);
        }
        1 => cs.insert(pos, if u.ratio(1, 10)? { crate::props::c11::random_non_ascii(u)? } else { *u.choose(INS)? }),
        2 if !cs.is_empty() => cs[pos] = *u.choose(INS)?,
        3 if !cs.is_empty() => {
            // duplicate a separator or any char
            let c = cs[pos];
            cs.insert(pos, c);
        }
        4 => {
            // drop a field
            let fields: Vec<&str> = s.split_whitespace().collect();
            if fields.len() > 1 {
                let k = u.int_in_range(0..=fields.len() - 1)?;
                let mut f = fields.clone();
                f.remove(k);
                return Ok(f.join(" "));
            }
        }
        5 => {
            // add a field
            return Ok(format!("{} {}", s, u.choose(&["*", "1", "mon", "*/2"])?));
        }
        _ => {
            cs.insert(pos, ',');
        }
    }
    Ok(cs.into_iter().collect())
}

fn to_vec(set: &[bool]) -> Vec<u32> {
    set.iter().enumerate().filter(|(_, b)| **b).map(|(i, _)| i as u32).collect()
}

/// reads the set a field text denotes back through the iterator under a pinned clock
fn probe(field_text: &str, kind: FieldKind) -> Result<Vec<u32>, String> {
    let (expr, now, limit_days): (String, DateTime, i64) = match kind {
        FieldKind::Minute => (format!("{} * * * *", field_text), DateTime::from_ymdhms(2024, 1, 1, 0, 59, 30).unwrap(), 0),
        FieldKind::Hour => (format!("0 {} * * *", field_text), DateTime::from_ymdhms(2023, 12, 31, 23, 59, 30).unwrap(), 1),
        FieldKind::Dom => (format!("0 0 {} * *", field_text), DateTime::from_ymdhms(2023, 12, 31, 23, 59, 30).unwrap(), 31),
        FieldKind::Month => (format!("0 0 1 {} *", field_text), DateTime::from_ymdhms(2023, 12, 31, 23, 59, 30).unwrap(), 366),
        FieldKind::Dow => (format!("0 0 * * {}", field_text), DateTime::from_ymdhms(2023, 12, 30, 23, 59, 30).unwrap(), 7),
    };
    let mut sched = CronSchedule::parse(&expr).map_err(|e| format!("probe {:?} rejected: {}", expr, e))?;
    astrolabe::verif::set_now(Some(now));
    let mut out = Vec::new();
    let end = match kind {
        FieldKind::Minute => DateTime::from_ymdhms(2024, 1, 1, 2, 0, 0).unwrap(),
        _ => now.add_days(limit_days as u32).add_minutes(1).clear_until_minute().add_hours(0),
    };
    for _ in 0..400 {
        let Some(r) = sched.next() else { break };
        if r >= end {
            break;
        }
        out.push(match kind {
            FieldKind::Minute => r.minute(),
            FieldKind::Hour => r.hour(),
            FieldKind::Dom => r.day(),
            FieldKind::Month => r.month(),
            FieldKind::Dow => r.weekday() as u32,
        });
    }
    astrolabe::verif::set_now(None);
    out.sort();
    out.dedup();
    Ok(out)
}

/// expressions a lossy cache key could confuse with `expr` (the last one parsed is the closest)
fn lossy_key_variants(expr: &str) -> Vec<String> {
    let fields: Vec<&str> = expr.split_whitespace().collect();
    let mut out = Vec::new();
    if fields.len() != 5 || expr.len() > 400 {
        return out;
    }
    // two fields swapped; letter case flipped
    let mut sw: Vec<&str> = fields.clone();
    sw.swap(0, 1);
    out.push(sw.join(" "));
    let mut sw: Vec<&str> = fields.clone();
    sw.swap(2, 3);
    out.push(sw.join(" "));
    if expr.chars().any(|ch| ch.is_ascii_alphabetic()) {
        out.push(expr.chars().map(|ch| if ch.is_ascii_lowercase() { ch.to_ascii_uppercase() } else { ch.to_ascii_lowercase() }).collect());
    }
    // one digit changed
    if let Some((i, ch)) = expr.char_indices().find(|(_, ch)| ch.is_ascii_digit()) {
        let mut v = expr.to_string();
        let d = ((ch as u8 - b'0' + 1) % 10 + b'0') as char;
        v.replace_range(i..i + 1, &d.to_string());
        out.push(v);
    }
    // a field boundary moved by one character, in both directions, at every boundary
    for k in 0..4 {
        let (a, b) = (fields[k], fields[k + 1]);
        if a.len() > 1 && a.is_ascii() {
            let mut f: Vec<String> = fields.iter().map(|x| x.to_string()).collect();
            f[k] = a[..a.len() - 1].to_string();
            f[k + 1] = format!("{}{}", &a[a.len() - 1..], b);
            out.push(f.join(" "));
        }
        if b.len() > 1 && b.is_ascii() {
            let mut f: Vec<String> = fields.iter().map(|x| x.to_string()).collect();
            f[k] = format!("{}{}", a, &b[..1]);
            f[k + 1] = b[1..].to_string();
            out.push(f.join(" "));
        }
    }
    out
}

pub struct Denotation;
impl Prop for Denotation {
    type Case = Case;
    const NAME: &'static str = "C16.denotation";
    const BYTES: usize = 200;
    fn gen(u: &mut Unstructured<'_>) -> arbitrary::Result<Case> {
        if u.ratio(1, 10)? {
            // sparse schedules (leap days, days 29+, both day fields) read back from starts next to
            // leap years and common century years
            return Ok(Case { expr: super::c17::gen_schedule(u)?, mutated: false, start: super::c17::gen_start(u)? });
        }
        let base = gen_expr(u)?;
        if u.ratio(1, 2)? {
            Ok(Case { expr: mutate(u, &base)?, mutated: true, start: 0 })
        } else {
            let start = if u.ratio(1, 2)? { super::c17::gen_start(u)? } else { 0 };
            Ok(Case { expr: base, mutated: false, start })
        }
    }
    fn check(c: &Case, cx: &mut Cx) -> Verdict {
        if c.expr.len() > 1 << 18 {
            return Verdict::Skip("malformed case");
        }
        let reference = cron::parse(&c.expr);
        let has_range_or_step = c.expr.contains('-') || c.expr.contains('/');
        let has_name_or_7 = c.expr.chars().any(|ch| ch.is_ascii_alphabetic()) || c.expr.split_whitespace().nth(4).map(|f| f.contains('7')).unwrap_or(false);
        if has_range_or_step && has_name_or_7 {
            cx.nt("range_or_step_with_name_or_7");
        }
        if c.mutated {
            cx.label("mutant");
        }
        if c.expr.len() > 256 {
            cx.nt("expression_longer_than_256_bytes");
        }
        let r = catch(|| CronSchedule::parse(&c.expr).map(|_| ()).map_err(|e| e));
        let got = match r {
            Err(p) => {
                astrolabe::verif::set_now(None);
                return fail("c16.parse_panic", format!("CronSchedule::parse({:?}) returns", c.expr), p.short());
            }
            Ok(g) => g,
        };
        let sets: Sets = match (reference, got) {
            (Parsed::Unspecified(why), _) => return Verdict::Skip(why),
            (Parsed::Reject(why), Ok(())) => {
                cx.nt("reference_rejects");
                let sig = if why.contains("more than one dash") { "c16.range_with_extra_dash_accepted" } else { "c16.accepts_invalid" };
                return fail(sig, format!("CronSchedule::parse({:?}) = Err(InvalidFormat) ({})", c.expr, why), "Ok".to_string());
            }
            (Parsed::Reject(_), Err(e)) => {
                cx.nt("reference_rejects");
                if !matches!(e, AstrolabeError::InvalidFormat(_)) {
                    return fail("c16.wrong_error_kind", "Err(InvalidFormat)", format!("{:?}", e));
                }
                return Verdict::Pass;
            }
            (Parsed::Accept(_), Err(e)) => {
                let dow = c.expr.split_whitespace().nth(4).unwrap_or("");
                let sig = if dow.contains("-7") { "c16.dow_range_ending_in_7_rejected" } else { "c16.rejects_valid" };
                return fail(sig, format!("CronSchedule::parse({:?}) is Ok", c.expr), format!("Err({})", e));
            }
            (Parsed::Accept(s), Ok(())) => s,
        };
        cx.label("accepted");
        // read every field's set back through the iterator
        let fields: Vec<&str> = c.expr.split([' ', '\t']).filter(|f| !f.is_empty()).collect();
        let wants = [to_vec(&sets.minutes), to_vec(&sets.hours), to_vec(&sets.dom), to_vec(&sets.months), to_vec(&sets.dow)];
        for k in 0..5 {
            cx.extra_evals += 1;
            let got = match catch(|| probe(fields[k], KINDS[k])) {
                Err(p) => {
                    astrolabe::verif::set_now(None);
                    return fail("c16.probe_panic", format!("iterating the probe schedule for field {:?} returns", fields[k]), p.short());
                }
                Ok(Err(e)) => return fail("c16.probe_rejected", format!("field {:?} accepted in a probe schedule as in {:?}", fields[k], c.expr), e),
                Ok(Ok(g)) => g,
            };
            if got != wants[k] {
                let sig = if k == 4 && fields[k].contains("-7") { "c16.dow_range_ending_in_7_wrong_set" } else { "c16.wrong_set" };
                return fail(
                    sig,
                    format!("field {} {:?} of {:?} denotes {:?}", ["minute", "hour", "day-of-month", "month", "day-of-week"][k], fields[k], c.expr, wants[k]),
                    format!("{:?}", got),
                );
            }
        }
        // the whole expression: first results against the reference search
        if sets.satisfiable() {
            let start = if c.start == 0 { cal::days_from_ymd(2024, 2, 28) * 86_400 + 12 * 3600 + 34 * 60 + 56 } else { c.start };
            if start < cal::days_from_ymd(1970, 1, 1) * 86_400 || start >= cal::days_from_ymd(2400, 1, 1) * 86_400 {
                return Verdict::Skip("clock outside 1970..2400");
            }
            if c.start != 0 {
                cx.label("generated_start");
            }
            let now = mk_dt(start as i128 * 1_000_000_000);
            let now_min = start.div_euclid(60);
            // parsing is a function of the text: expressions that differ from this one only in
            // where the field boundaries fall, in one digit, in the order of two fields or in letter
            // case are parsed directly before it (results ignored) - a memo keyed on anything less
            // than the text would hand back their sets
            let variants = lossy_key_variants(&c.expr);
            if !variants.is_empty() {
                cx.label("parsed_after_look-alike_expressions");
                let first = sets.next_after(now_min, 3300).map(|w| w as i128 * 60 * 1_000_000_000);
                let pick = (start as usize ^ c.expr.len()) % variants.len();
                for j in 0..variants.len().min(4) {
                    let v = &variants[(pick + j) % variants.len()];
                    cx.extra_evals += 1;
                    let r = catch(|| {
                        let _ = CronSchedule::parse(v);
                        let mut s = CronSchedule::parse(&c.expr).unwrap();
                        astrolabe::verif::set_now(Some(now));
                        let g = s.next().map(|d| rd_dt(&d));
                        astrolabe::verif::set_now(None);
                        g
                    });
                    astrolabe::verif::set_now(None);
                    match r {
                        Err(p) => return fail("c16.next_panic", format!("first result of {:?} parsed right after {:?} returns", c.expr, v), p.short()),
                        Ok(g) => {
                            if first.is_some() && g != first {
                                return fail(
                                    "c16.depends_on_previous_call",
                                    format!("first result of {:?} after {} when {:?} was parsed directly before = {}", c.expr, fmt_instant(start as i128 * 1_000_000_000), v, fmt_instant(first.unwrap())),
                                    format!("{:?}", g.map(fmt_instant)),
                                );
                            }
                        }
                    }
                }
            }
            let r = catch(|| {
                let mut s = CronSchedule::parse(&c.expr).unwrap();
                astrolabe::verif::set_now(Some(now));
                let v: Vec<i128> = (0..3).filter_map(|_| s.next()).map(|d| rd_dt(&d)).collect();
                astrolabe::verif::set_now(None);
                v
            });
            astrolabe::verif::set_now(None);
            let got = match r {
                Ok(v) => v,
                Err(p) => return fail("c16.next_panic", format!("first results of {:?} return", c.expr), p.short()),
            };
            let mut t = now_min;
            for i in 0..3 {
                let Some(w) = sets.next_after(t, 3300) else { break };
                let wi = w as i128 * 60 * 1_000_000_000;
                let what = format!("result #{} of {:?} after {} = {}", i + 1, c.expr, fmt_instant(start as i128 * 1_000_000_000), fmt_instant(wi));
                match got.get(i) {
                    None => return fail("c16.first_results_end_early", what, "None".to_string()),
                    Some(g) if *g != wi => return fail("c16.first_results", what, fmt_instant(*g)),
                    _ => {}
                }
                t = w;
            }
        }
        Verdict::Pass
    }
}

pub fn run(env: &mut Env) {
    let t = env.thorough();
    // documented examples and boundary expressions, seed independent
    let fixed = [
        "* * * * *", "*/5 * * * *", "0 10 * * Mon-Fri", "1,3-5,10-15 * * * *", "0 0 * * 7", "0 0 * * 0", "0 0 * * 5-7", "0 0 * * 0-7", "0 0 * * 7-7",
        "0 0 * * 1-7", "0 0 * * sun-sat", "59 23 31 12 6", "0 0 1 1 0", "*/60 */24 */31 */12 */7", "0-59 0-23 1-31 1-12 0-6", "0 0 1 JAN-DEC *",
        "1-2-3 * * * *", "* * * * 1-2-3", "5-7-7 * * * *", "*/0 * * * *", "60 * * * *", "* * 0 * *", "* * * 0 *", "* * * * 8", "1,,2 * * * *", ",1 * * * *", "1, * * * *",
        "* * * * * *", "* * * *", "", "     ", "a * * * *", "* * * jan-mar,DEC mon,WED,fri",
    ];
    env.run_list::<Denotation>(fixed.iter().map(|s| Case { expr: s.to_string(), mutated: false, start: 0 }).collect());
    // every single value / every range a<=b / every step, per field
    let mut sys: Vec<Case> = Vec::new();
    for (k, kind) in KINDS.iter().enumerate() {
        let (lo, hi) = kind.range();
        let wrap = |f: String| {
            let mut fs = ["*".to_string(), "*".to_string(), "*".to_string(), "*".to_string(), "*".to_string()];
            fs[k] = f;
            Case { expr: fs.join(" "), mutated: false, start: 0 }
        };
        for a in lo..=hi {
            sys.push(wrap(a.to_string()));
            if t || a % 3 == 0 {
                for b in a..=hi {
                    if t || (b - a) % 4 == 0 || b == hi {
                        sys.push(wrap(format!("{}-{}", a, b)));
                    }
                }
            }
        }
        let top = if *kind == FieldKind::Dow { 6 } else { hi };
        for s in 1..=top + 1 {
            sys.push(wrap(format!("*/{}", s)));
        }
        // oversized steps and values (verdict unspecified / reject; must at least not panic)
        for s in [top + 2, 59, 60, 61, 99, 100, 127, 128, 200, 254, 255, 256, 257, 999, 65_535, 65_536] {
            sys.push(wrap(format!("*/{}", s)));
            sys.push(wrap(format!("{}", s)));
            sys.push(wrap(format!("{}-{}", lo, s)));
            sys.push(wrap(format!("{}-{}", s, s)));
        }
    }
    for (i, m) in MONTHS.iter().enumerate() {
        sys.push(Case { expr: format!("0 0 1 {} *", m), mutated: false, start: 0 });
        sys.push(Case { expr: format!("0 0 1 {}-DEC *", m.to_uppercase()), mutated: false, start: 0 });
        let _ = i;
    }
    for d in DAYS.iter() {
        sys.push(Case { expr: format!("0 0 * * {}", d), mutated: false, start: 0 });
        sys.push(Case { expr: format!("0 0 * * {}-sat", d), mutated: false, start: 0 });
    }
    env.run_list::<Denotation>(sys);
    env.exhaustive_parts.push(format!("C16: every single value, every step 1..=max+1{} per field, every month and weekday name", if t { ", every range a<=b" } else { " and a grid of ranges a<=b" }));
    env.run_random::<Denotation>(if t { 2_000_000 } else { 200_000 });
}
