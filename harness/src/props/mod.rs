pub mod c01;
pub mod c02;
pub mod c03;
pub mod c04;
pub mod c05;
pub mod c06;
pub mod c07;
pub mod c08;
pub mod c09;
pub mod c10;
pub mod c11;
pub mod c12;
pub mod c13;
pub mod c15;

use crate::engine::Env;

pub const ALL: [&str; 14] = ["C01", "C02", "C03", "C04", "C05", "C06", "C07", "C08", "C09", "C10", "C11", "C12", "C13", "C15"];

/// run (or, with env.register_only, just register) every sub-check of a property
pub fn run(id: &str, env: &mut Env) -> bool {
    match id {
        "C01" => c01::run(env),
        "C02" => c02::run(env),
        "C03" => c03::run(env),
        "C04" => c04::run(env),
        "C05" => c05::run(env),
        "C06" => c06::run(env),
        "C07" => c07::run(env),
        "C08" => c08::run(env),
        "C09" => c09::run(env),
        "C10" => c10::run(env),
        "C11" => c11::run(env),
        "C12" => c12::run(env),
        "C13" => c13::run(env),
        "C15" => c15::run(env),
        _ => return false,
    }
    true
}

/// generation rule and the definition of "non-trivial", per property (goes into the evidence)
pub fn rule(id: &str) -> String {
    match id {
        "C01" => "Day numbers: complete enumeration of windows (quick) or of all 2^32 days (thorough), each compared with an independent civil-calendar model (closed form + successor stepping), plus seeded boundary-dense random days through the full per-case oracle; triples: the full 14x33 (month,day) product for boundary-dense years (quick) or for every year in -5879612..=5879612 (thorough), plus random triples. Non-trivial day: BC, or within 2 days of a year end, in the Feb 27..Mar 2 zone, at the era boundary or a range end. Non-trivial triple: valid and BC / end of February / year edge / range end, or invalid by exactly one step (day 0, day = len+1, month 0/13, year 0, just outside the range).",
        "C03" => "Timestamps: every second within +-3000 s of both range ends, of 0 and of 0001-01-01, hourly steps over +-400 days around the range ends, and seeded boundary-dense i64 values (in range: round trip and fields against the i128 time line; out of range: must panic). Pairs: first instant boundary-dense over the whole range, second at a boundary-dense delta (0, 1 ns, 1 s -+ 1 ns, 1 day -+ 1 ns, < one unit, across day 0, far), each side with an independent offset; ==, <, cmp, partial_cmp and the sign of all nine *_since compared with the i128 instants; Date and Time order likewise. Non-trivial: negative non-day-aligned timestamp, timestamp within a day of a range end (inside or outside), i64 extremes; pair with different offsets within a day, pair straddling 0001-01-01, equal instants, sub-second apart.",
        "C04" => "Cases (receiver instant boundary-dense over the whole range minus 2 days, offset, operation): the 14 add_/sub_ unit methods on DateTime and add_days/sub_days on Date with u32 counts (0, small, 2^31-1, 2^31, 2^32-1, the thresholds where count x unit crosses 2^63/2^64 ns, log-uniform, uniform), DateTime +/- Duration (0 .. u64::MAX s), DateTime +/- Time, Date +/- Duration and the *Assign forms; one case in four places the receiver so that the target lands within +-2 days (or +-2 ns) of a range end. Oracle: i128 time line; representable => exact instant and unchanged offset, else any panic. Non-trivial: BC receiver, crosses a day boundary or day 0, count >= 2^31, amount >= 2^63 ns, target within a day of a range end.",
        "C06" => "Pairs of instants (first boundary-dense over the range, second at a boundary-dense delta: 0, 1 ns, < one unit, k units +-1 ns, across 0001-01-01, far) with independent offsets: days..nanos_since on DateTime, hours..nanos_since on Time, days_since on Date compared with the exact i128 difference truncated toward zero, antisymmetry in both directions, duration_between = |difference| and symmetric; plus (instant, unit, u32 n): add_/sub_<unit>(n) followed by <unit>_since returns +-n. Non-trivial: |delta| below one unit, sub-unit remainders ordered opposite to the totals, pair straddling or entirely before 0001-01-01, n >= 2^31, start not aligned to the unit.",
        "C05" => "Cases (date, N, operation in add_months/sub_months/add_years/sub_years, receiver Date or DateTime with a time of day): dates rich in month ends 28..31 and Feb 29 of AD and BC leap years, the era neighbourhood and the range ends; N from 0,1,2,11,12,13,23,24,25, month+-1, 1200, 4800, the exact distance to the range end and to the era boundary +-k, 2^31-1, 2^31, 2^32-1, log-uniform; plus the complete product (month, day) x N<=50 x 4 operations over a window of years around the era. Oracle: month arithmetic on the astronomical month index with end-of-month clamp (second formulation by single-month stepping for N<=50); in range => exact date, same time of day, same offset; out of range => panic. DateTime receivers with a non-zero offset: only time of day and offset preservation are judged. Non-trivial: day >= 29, clamped, crosses the era, BC start, sub_months borrowing a year, N >= 2^31, target within a month of a range end.",
        "C02" => "Getters weekday()/day_of_year(): complete windows (quick) or all 2^32 days (thorough) against (d+1) mod 7 and d - jan1 + 1; the formatted fields w, ww, q, e..eeeeeeee, D (one format call with a 12-field pattern) on Dec 25..Jan 7 of every year in windows (quick) or of all 11.76M years (thorough), on 400-year cycles around the era and 1970 and at the range ends, against the ISO-8601 week (two formulations), quarter and weekday tables; set_day_of_year for years x N in 0..=367 (windows of years in quick, every year in thorough); plus seeded random days through the full per-field oracle on Date and DateTime. Non-trivial: BC day, day in the first/last 7 days of a year, N in {0,1,59,60,61,365,366,367}, BC or range-end year for the setter.",
        "C07" => "Complete enumeration of all ordered pairs of days inside multi-year windows (a modern window with a leap year, the era boundary, BC leap years), row by row (fixed b, every a), for Date and - with three times of day on both sides - for DateTime; plus seeded random pairs over the whole range (half of them a few months apart with day of month and time of day within +-1 of each other) and random rows. Oracle per pair: antisymmetry of months_since and years_since (all pairs); when the earlier value's day of month is <= 28, the bracket model.add_months(b, n) <= a < model.add_months(b, n+1) on the instants and years == n / 12; along each row monotonicity in a. The model's month arithmetic is used, never the crate's. Non-trivial pair: same year with a day/time borrow, across a leap day, across the era, same date with different time of day. Row cases count their non-trivial pairs by construction.",
        "C08" => "Model-based histories on Time: a start value (boundary-dense time of day, optional offset) followed by up to 12 operations from add_/sub_ x 6 units x u32 counts, Time +/- Time, Time +/- Duration (0 .. 2^64 s), the *Assign forms, the six setters (in and out of range), the six clear_until_*, set_offset, as_offset, Time::from(DateTime) of any era, parse(format(..)); the reference state is (nanoseconds mod 24 h, offset) and after EVERY step as_nanos() < 24 h, as_nanos(), get_offset(), as_hms(), the six local getters and equality with a freshly built Time are compared with it. Single-operation histories are also enumerated from every (97th in quick) second of the day x four sub-second values. Constructors from_hms/from_seconds/from_nanos over boundary-dense u32/u64 arguments accept exactly in-day values. Non-trivial: a step wrapping past midnight in either direction, amount >= 2^63 ns, operands summing to >= 24 h, subtraction below zero, duration >= 24 h, Time from a BC DateTime, set/clear under an offset.",
        "C09" => "Cases (instant, offset, operation, candidate): the 10 setters and 9 clear_until_* on DateTime with any offset in +-23:59:59 (UTC time of day biased to within |offset| of midnight so that the local date differs from the UTC date; month/year ends, Feb 29 AD and BC, sub-second remainders), the date setters/clears on Date, the time setters/clears on Time; candidates min, min+1, max-1, max, max+1, min-1, the current value, 2^31, 2^32-1, typical wrong guesses, random. Oracle: local-field model (apply offset -> edit exactly that field -> remove offset); valid => Ok, all getters of the result read the edited local fields, offset unchanged, instant = local - offset; invalid => Err(OutOfRange). Target local dates within 2 days of a range end are skipped as unspecified. Non-trivial: local date != UTC date, Feb 29 involved, BC, refused candidate, candidate at max/max+1, Time wrapping under its offset.",
        "C10" => "(instant, offset) pairs: every 61st (quick) or every (thorough) offset in -86399..=86399 x 64 fixed instants (range ends +-2 days, era boundary, leap days, year ends, 4 times of day) and x 64 times of day, plus seeded random pairs with the UTC time of day biased to within |offset| of midnight. set_offset: timestamp, instant, ==, cmp, every *_since (= 0), duration_between unchanged; all 11 getters and the rendering of yyyy-MM-dd HH:mm:ss.nnnnn xxxxx equal the model's fields of instant + offset. as_offset (on offset-0 values): getters unchanged, instant moved by -offset, get_offset = offset. Same for Time modulo 24 h. Offset::from_seconds / from_hms over boundary-dense i32/u32 arguments: accepted exactly inside +-23:59:59, resolve()/resolve_hms() return what was given. Non-trivial: offset not a whole hour, local date != UTC date (month/year end, day 0 crossings), Time wrap-around, constructor arguments at the edge or one step outside.",
        "C15" => "Argument tuples for every public Result-returning constructor and setter (Date/DateTime::from_ymd, from_ymdhms, DateTime/Time::from_hms, Time::from_seconds/from_nanos, Offset::from_seconds/from_hms, the 10 DateTime setters, 4 Date setters and 6 Time setters on boundary-dense receivers with offsets): each argument from min, max, max+1, min-1, max-1, 0, 1, 2^31-1, 2^31, 2^32-1, values whose products wrap modulo 2^32, type extremes, random; half of the cases keep all but one argument valid. Oracle: Ok iff the model says valid, value equal to the model's for the unwrapped arguments, Err is OutOfRange, no panic. Metamorphic message check: when Display has the form '<name> must be in the range A..=B' and <name> is an argument of the call, the rejected value lies outside [A,B] and, over a sweep of ~45 alternative values of that argument with the others fixed, every accepted value lies inside [A,B]. Non-trivial: exactly one argument one step outside its range, an argument >= 2^31, a conditional range (month length, range-end year), a message whose range was checked.",
        "C11" => "Cases (value of kind Date/Time/DateTime over all eras with any offset, pattern): patterns are token sequences (1..8) of fields (symbol documented for the type x width 1..=10), unquoted literals (space - / : . , _ T digits parentheses + and the non-ASCII letters e-acute and a CJK character), quoted text (any characters incl. symbol letters and doubled apostrophes) and the '' escape, built so that the documented tokenisation is unambiguous (adjacent fields differ in symbol, no two quote-bearing tokens adjacent) and verified to tokenise back; plus the product 19 symbols x widths 1..=10 x value classes (all hours, noon/midnight seconds, months, week 52/53/1 days, year signs and digit counts 1..7, offsets 0/+-hh/+-hhmm/+-hhmmss, sub-second digit groups). Oracle: reference formatter written from the three doc tables (self-tested against the repository's 403 format assertions). Unspecified renderings (yy for years <= -10, b in the noon/midnight second with a sub-second part, X..XXX for |offset| < 60 s) are skipped and counted. Non-trivial: >= 2 fields and a value in a class the table distinguishes, or any quoting, or an over-long run.",
        "C12" => "Cases (value of kind Date/Time/DateTime, all eras and offsets, coherent unambiguous pattern built by construction): the generator chooses which determining fields are present (date: none / y / y+M / y+M+d / y+D / M / d / M+d; time: none / hour / +minute / +second / +sub-second; hour as H, k, or h/K with an a or b period; zone X or x wide enough for the offset), adds derived fields (G q w e next to a full date, a/b next to H/k) only when their determining fields are present, picks widths from the table (no narrow names, yyyyy+ only when the year fits), lightly shuffles the fields and inserts separators (literals incl. non-ASCII, quoted text, '') - always a non-digit after a variable-width field and never ':' after a width-5 zone. The check re-derives these preconditions from the tokens and skips (counts) anything outside the grammar. Oracle: parse(format(v,p),p) is Ok, formatting the result reproduces the string, absent groups default to 0001-01-01 / 00:00:00 / UTC, and with full date + time + zone the instant (at the pattern's sub-second precision) and the offset are the original ones. Non-trivial: >= 4 fields incl. a variable-width one, BC or 5+-digit year, 12-hour clock at 0/12 h, k at hour 0, day of year, offset with minutes/seconds, one-letter month >= 10, non-ASCII literal, fully determined pattern.",
        "C13" => "Write side: instants whose UTC and local year lie in 0001..=9999 (range ends, month ends, around 1970, uniform) x whole-minute offsets (|k| <= 1439) x the 5 precisions; the output must match the RFC 3339 date-time grammar (independent hand-written reader from the ABNF) with exactly the requested number of fraction digits and decode to the value's instant truncated to that precision and its offset. Read side: strings assembled from the ABNF - valid date, T, valid time (seconds 00-59), no fraction or '.' + 1..=40 digits (all 9, all 0, 0..01, random), Z or +-hh:mm - through parse_rfc3339 and str::parse; expected instant = local - offset with the fraction's first nine digits (round-to-nearest also accepted beyond nine), offset = the written one; one case in four is a field mutant (month 00/13, day 00/32/len+1, 29 Feb of a common year, hour 24, minute 60, second 61, offset hour 24, offset minute 60) which must give Err without panicking. Year 0000 and second 60 are skipped as unspecified. Non-trivial: fraction length not in {1,9}, > 9, >= 20 digits, non-zero offset, offset changing the month/year, truncating precision, every mutant.",
        _ => "",
    }
    .to_string()
}

pub fn assumptions(id: &str) -> Vec<String> {
    let mut v = vec![
        "the reference models in harness/src/model (self-tested: two formulations + anchors, exit 2 on disagreement)".to_string(),
        "values are built/read through Date/DateTime::from_timestamp, add_nanos, timestamp(), nano() (validated by C01/C03/C04 and the instrument self-test)".to_string(),
        "both arithmetic profiles (overflow-checks on/off) of astrolabe built from /repo's working tree with --cfg astrolabe_verif".to_string(),
    ];
    match id {
        "C01" => v.push("Date::from_timestamp is used to reach an arbitrary day number".into()),
        _ => {}
    }
    v
}

/// model self-tests beyond the calendar (formatter vs. repository assertions, TZif golden, …)
pub fn model_self_tests() -> Result<u64, String> {
    let mut n = 0;
    n += crate::model::fmt::self_test()?;
    Ok(n)
}
