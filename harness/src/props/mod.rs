pub mod c01;

use crate::engine::Env;

pub const ALL: [&str; 1] = ["C01"];

/// run (or, with env.register_only, just register) every sub-check of a property
pub fn run(id: &str, env: &mut Env) -> bool {
    match id {
        "C01" => c01::run(env),
        _ => return false,
    }
    true
}

/// generation rule and the definition of "non-trivial", per property (goes into the evidence)
pub fn rule(id: &str) -> String {
    match id {
        "C01" => "Day numbers: complete enumeration of windows (quick) or of all 2^32 days (thorough), each compared with an independent civil-calendar model (closed form + successor stepping), plus seeded boundary-dense random days through the full per-case oracle; triples: the full 14x33 (month,day) product for boundary-dense years (quick) or for every year in -5879612..=5879612 (thorough), plus random triples. Non-trivial day: BC, or within 2 days of a year end, in the Feb 27..Mar 2 zone, at the era boundary or a range end. Non-trivial triple: valid and BC / end of February / year edge / range end, or invalid by exactly one step (day 0, day = len+1, month 0/13, year 0, just outside the range).",
        _ => "",
    }
    .to_string()
}

pub fn assumptions(id: &str) -> Vec<String> {
    let mut v = vec![
        "the reference models in harness/src/model (self-tested: two formulations + anchors, exit 2 on disagreement)".to_string(),
        "values are built/read through Date/DateTime::from_timestamp, add_nanos, timestamp(), nano() (validated by C01/C03/C04 and the instrument self-test)".to_string(),
        "both arithmetic profiles (overflow-checks on/off) of astrolabe built from /repo's working tree with --cfg astrolabe_verif".to_string(),
    ];
    match id {
        "C01" => v.push("Date::from_timestamp is used to reach an arbitrary day number".into()),
        _ => {}
    }
    v
}

/// model self-tests beyond the calendar (formatter vs. repository assertions, TZif golden, …)
pub fn model_self_tests() -> Result<u64, String> {
    Ok(0)
}
