//! C10 — an offset changes how an instant is read, never which instant it is.
use crate::engine::*;
use crate::gen::{self, Inst};
use crate::model::{cal, tl};
use crate::obs::*;
use crate::ensure_eq;
use arbitrary::Unstructured;
use astrolabe::errors::AstrolabeError;
use astrolabe::{DateTime, DateUtilities, Offset, OffsetUtilities, Time, TimeUtilities};
use serde::{Deserialize, Serialize};

#[derive(Debug, Clone, Hash, Serialize, Deserialize)]
pub struct Case {
    pub i: Inst,
    pub off: i32,
    /// a second offset applied to the value that already carries `off` (two-step history)
    #[serde(default)]
    pub off2: i32,
    /// carry the offset as `Offset::Local` under an injected zone file whose only offset is `off`
    /// and a pinned clock (0 = no; otherwise the pinned Unix time)
    #[serde(default)]
    pub local_now: i64,
}


pub fn fmt_year4(y: i64) -> String {
    if y < 0 {
        format!("-{:04}", -y)
    } else {
        format!("{:04}", y)
    }
}

pub fn fmt_off_colon_full(off: i32) -> String {
    let a = off.unsigned_abs();
    let (h, m, s) = (a / 3600, a / 60 % 60, a % 60);
    let sign = if off < 0 { '-' } else { '+' };
    if s != 0 {
        format!("{}{:02}:{:02}:{:02}", sign, h, m, s)
    } else {
        format!("{}{:02}:{:02}", sign, h, m)
    }
}

type DtObs = (i64, (i32, u32, u32, u32, u8), (u32, u32, u32, u32, u32, u32), Offset, String);

fn observe(d: &DateTime) -> DtObs {
    (
        d.timestamp(),
        (d.year(), d.month(), d.day(), d.day_of_year(), d.weekday()),
        (d.hour(), d.minute(), d.second(), d.milli(), d.micro(), d.nano()),
        d.get_offset(),
        // the default text form is one more rendering of the same local reading
        format!("{}|{}", d.format("yyyy-MM-dd HH:mm:ss.nnnnn xxxxx"), d),
    )
}

fn expect_fields(local: i128, off: i32) -> ((i32, u32, u32, u32, u8), (u32, u32, u32, u32, u32, u32), String) {
    let f = tl::fields(local);
    (
        (f.year as i32, f.month, f.dom, cal::day_of_year(f.day), cal::weekday(f.day) as u8),
        (f.hour, f.minute, f.second, f.subsec / 1_000_000, f.subsec / 1_000, f.subsec),
        format!(
            "{}-{:02}-{:02} {:02}:{:02}:{:02}.{:09} {}|{}/{:02}/{:02} {:02}:{:02}:{:02}",
            fmt_year4(f.year),
            f.month,
            f.dom,
            f.hour,
            f.minute,
            f.second,
            f.subsec,
            fmt_off_colon_full(off),
            fmt_year4(f.year),
            f.month,
            f.dom,
            f.hour,
            f.minute,
            f.second
        ),
    )
}

fn classify(i: i128, off: i32, cx: &mut Cx) {
    if off % 3600 != 0 {
        cx.nt("offset_not_whole_hour");
    }
    if off % 60 != 0 {
        cx.label("offset_with_seconds");
    }
    let l = i + off as i128 * tl::NS;
    let (fu, fl) = (tl::fields(i), tl::fields(l));
    if fu.day != fl.day {
        cx.nt("local_date!=utc_date");
        if fu.month != fl.month {
            cx.nt("crosses_month_end");
        }
        if fu.year != fl.year {
            cx.nt("crosses_year_end");
        }
        if (i < 0) != (l < 0) {
            cx.nt("crosses_day0");
        }
    }
}

pub struct DtOffset;
impl Prop for DtOffset {
    type Case = Case;
    const NAME: &'static str = "C10.datetime";
    const BYTES: usize = 64;
    fn gen(u: &mut Unstructured<'_>) -> arbitrary::Result<Case> {
        let mut i = gen::inst(u, 1)?;
        let off = gen::offset(u)?;
        if off != 0 && u.coin(1, 2)? {
            let o = off as i64 * 1_000_000_000;
            let within = u.below(o.unsigned_abs())? as i64;
            i.ns = (if off > 0 { 86_399_999_999_999 - within } else { within }).clamp(0, 86_399_999_999_999);
        }
        // local time of day exactly at / next to midnight and noon
        if u.coin(1, 5)? {
            let local_tod = *u.choose(&[0i64, 1, 86_399_999_999_999, 86_399_000_000_000, 43_200_000_000_000, 1_000_000_000])?;
            i.ns = (local_tod - off as i64 * 1_000_000_000).rem_euclid(86_400_000_000_000);
        }
        // as_offset moves the instant by minus the offset: aim at an exact midnight / the last
        // nanosecond of a day for the *moved* instant
        if u.coin(1, 8)? {
            let target = *u.choose(&[0i64, 0, 86_399_999_999_999, 1])?;
            i.ns = (target + off as i64 * 1_000_000_000).rem_euclid(86_400_000_000_000);
        }
        let off2 = match u.below(4)? {
            0 | 1 => 0,
            2 => off,
            _ => gen::offset(u)?,
        };
        let local_now = if u.coin(1, 6)? { u.range_i64(-1_900_000_000, 2_100_000_000)? } else { 0 };
        Ok(Case { i, off, off2, local_now })
    }
    fn check(c: &Case, cx: &mut Cx) -> Verdict {
        if !c.i.valid() || c.off.unsigned_abs() > 86_399 || c.off2.unsigned_abs() > 86_399 {
            return Verdict::Skip("malformed case");
        }
        if c.i.day < cal::MIN_DAY + 1 || c.i.day > cal::MAX_DAY - 1 {
            return Verdict::Skip("on an outermost day of the range (unspecified)");
        }
        let i = c.i.i();
        classify(i, c.off, cx);
        let mut o = Offset::Fixed(c.off);
        let zone = local_zone_bytes(c.off, c.local_now);
        if c.local_now != 0 {
            // Offset::Local is an offset too: with a zone file whose offset is `off` everything
            // stated for Fixed(off) holds for it
            let ok = crate::model::tz::read(&zone).ok().and_then(|z| z.offset_at(c.local_now)) == Some(c.off);
            if !ok || !local_now_ok(c.local_now) {
                return Verdict::Skip("malformed case");
            }
            cx.nt("offset_carried_as_Offset::Local");
            o = Offset::Local;
        }
        let r = catch(|| {
            if c.local_now != 0 {
                astrolabe::verif::set_localtime(Some(Ok(zone.clone())));
                astrolabe::verif::set_now(Some(DateTime::from_timestamp(c.local_now)));
            }
            let v = mk_dt_off_any(i, 0);
            let w = v.set_offset(o);
            let zeros = (
                w.years_since(&v),
                w.months_since(&v),
                w.days_since(&v),
                w.hours_since(&v),
                w.minutes_since(&v),
                w.seconds_since(&v),
                w.millis_since(&v),
                w.micros_since(&v),
                w.nanos_since(&v),
            );
            // ... and against other values: an offset on either operand changes no difference
            for (k, delta) in [(0u8, 365i128 * tl::DAY_NS + 900 * tl::NS), (1, -366 * tl::DAY_NS - 1_800 * tl::NS), (2, 31 * tl::DAY_NS), (3, -59 * tl::DAY_NS + 1)] {
                let ri = i + delta;
                if (c.i.ns as u64 + k as u64) % 2 == 0 && tl::representable(ri - tl::DAY_NS) && tl::representable(ri + tl::DAY_NS) {
                    let r = mk_dt(ri);
                    let dv = (v.years_since(&r), v.months_since(&r), v.days_since(&r), v.hours_since(&r), v.seconds_since(&r), r.years_since(&v), r.months_since(&v), r.days_since(&v));
                    let dw = (w.years_since(&r), w.months_since(&r), w.days_since(&r), w.hours_since(&r), w.seconds_since(&r), r.years_since(&w), r.months_since(&w), r.days_since(&w));
                    if dv != dw {
                        panic!("differences against {} change with the offset: {:?} at offset 0, {:?} with the offset", fmt_instant(ri), dv, dw);
                    }
                    // ... also when both operands are read in that same zone
                    let ro = r.set_offset(o);
                    let dz = (w.years_since(&ro), w.months_since(&ro), w.days_since(&ro), w.hours_since(&ro), w.seconds_since(&ro), ro.years_since(&w), ro.months_since(&w), ro.days_since(&w));
                    if dv != dz {
                        panic!("differences against {} change when both operands carry the offset: {:?} at offset 0, {:?} with the offset on both", fmt_instant(ri), dv, dz);
                    }
                }
            }
            let x = v.as_offset(o);
            // second step: replace the offset of a value that already carries one
            let w2 = w.set_offset(Offset::Fixed(c.off2));
            // as_offset on the offset-carrying value (same offset / the second offset)
            let y1 = w.as_offset(o);
            let y2 = w.as_offset(Offset::Fixed(c.off2));
            if (c.i.ns ^ c.i.day) % 3 == 0 || (c.i.ns - c.off as i64 * 1_000_000_000).rem_euclid(86_400_000_000_000) < 2 {
                for (name, d) in [("set_offset", &w), ("as_offset", &x), ("second set_offset", &w2), ("as_offset after set_offset", &y1), ("as_offset(off2) after set_offset", &y2)] {
                    if let Err(why) = canonical_dt(d) {
                        panic!("non-canonical result of {}: {}", name, why);
                    }
                }
            }
            (observe(&v), observe(&w), v == w, v.cmp(&w), w.cmp(&v), zeros, w.duration_between(&v).as_nanos(), observe(&x), rd_dt(&x), rd_dt(&w), observe(&w2), rd_dt(&w2), (rd_dt(&y1), y1.get_offset(), rd_dt(&y2), y2.get_offset()))
        });
        astrolabe::verif::set_localtime(None);
        astrolabe::verif::set_now(None);
        let (ov, ow, eq, c1, c2, zeros, dur, ox, ix, iw, ow2, iw2, ys) = match r {
            Ok(v) => v,
            Err(p) => return fail("c10.dt_panic", format!("set_offset/as_offset({}) on {} return", c.off, fmt_instant(i)), p.short()),
        };
        let what = format!("{} with offset {}", fmt_instant(i), c.off);
        // set_offset: same instant
        ensure_eq!("c10.set_offset_changes_timestamp", format!("timestamp of {}", what), ov.0, ow.0);
        ensure_eq!("c10.set_offset_changes_instant", format!("instant of {}", what), i, iw);
        ensure_eq!("c10.set_offset_equality", format!("v == v.set_offset for {}", what), (true, std::cmp::Ordering::Equal, std::cmp::Ordering::Equal), (eq, c1, c2));
        ensure_eq!("c10.set_offset_since_nonzero", format!("all *_since zero for {}", what), (0, 0, 0, 0, 0, 0, 0, 0, 0), zeros);
        ensure_eq!("c10.set_offset_duration_between", "duration_between", 0, dur);
        ensure_eq!("c10.get_offset", "get_offset after set_offset", o, ow.3);
        // set_offset: reading shifted by the offset
        let (wd, wt, ws) = expect_fields(i + c.off as i128 * tl::NS, c.off);
        ensure_eq!("c10.set_offset_date_getters", format!("date getters of {}", what), wd, ow.1);
        ensure_eq!("c10.set_offset_time_getters", format!("time getters of {}", what), wt, ow.2);
        ensure_eq!("c10.set_offset_format", format!("format of {}", what), ws, ow.4);
        // as_offset: same displayed fields, instant moved by minus the offset
        let (vd, vt, _) = expect_fields(i, 0);
        ensure_eq!("c10.harness_base_getters", "getters of the offset-0 value", (vd, vt), (ov.1, ov.2));
        ensure_eq!("c10.as_offset_date_fields", format!("date fields after as_offset({}) on {}", c.off, fmt_instant(i)), vd, ox.1);
        ensure_eq!("c10.as_offset_time_fields", format!("time fields after as_offset({}) on {}", c.off, fmt_instant(i)), vt, ox.2);
        ensure_eq!("c10.as_offset_instant", format!("instant after as_offset({}) on {}", c.off, fmt_instant(i)), i - c.off as i128 * tl::NS, ix);
        ensure_eq!("c10.as_offset_get_offset", "get_offset after as_offset", o, ox.3);
        // two-step history: set_offset(off) then set_offset(off2) reads as set_offset(off2) alone
        if c.off != 0 {
            cx.nt("second_set_offset_on_an_offset_value");
        }
        let what2 = format!("{} after set_offset({}) then set_offset({})", fmt_instant(i), c.off, c.off2);
        let (wd2, wt2, ws2) = expect_fields(i + c.off2 as i128 * tl::NS, c.off2);
        ensure_eq!("c10.second_set_offset_instant", format!("instant of {}", what2), i, iw2);
        ensure_eq!("c10.second_set_offset_get_offset", format!("get_offset of {}", what2), Offset::Fixed(c.off2), ow2.3);
        ensure_eq!("c10.second_set_offset_date_getters", format!("date getters of {}", what2), wd2, ow2.1);
        ensure_eq!("c10.second_set_offset_time_getters", format!("time getters of {}", what2), wt2, ow2.2);
        ensure_eq!("c10.second_set_offset_format", format!("format of {}", what2), ws2, ow2.4);
        // as_offset on a value that already carries an offset: which fields it "keeps" is not
        // specified there, but the instant moves by minus the given offset and the offset is set
        ensure_eq!(
            "c10.as_offset_on_offset_value",
            format!("(instant, offset) after set_offset({}) then as_offset({}) / as_offset({}) on {}", c.off, c.off, c.off2, fmt_instant(i)),
            (i - c.off as i128 * tl::NS, o, i - c.off2 as i128 * tl::NS, Offset::Fixed(c.off2)),
            ys
        );
        Verdict::Pass
    }
}

#[derive(Debug, Clone, Hash, Serialize, Deserialize)]
pub struct TimeCase {
    pub ns: u64,
    pub off: i32,
    #[serde(default)]
    pub off2: i32,
}

pub struct TimeOffset;
impl Prop for TimeOffset {
    type Case = TimeCase;
    const NAME: &'static str = "C10.time";
    const BYTES: usize = 48;
    fn gen(u: &mut Unstructured<'_>) -> arbitrary::Result<TimeCase> {
        let off = gen::offset(u)?;
        let mut ns = gen::day_ns(u)?;
        // local time of day exactly at / next to midnight (the wrap-around point) and noon
        if u.coin(1, 4)? {
            let local_tod = *u.choose(&[0i64, 1, 86_399_999_999_999, 86_399_000_000_000, 43_200_000_000_000, 1_000_000_000])?;
            ns = (local_tod - off as i64 * 1_000_000_000).rem_euclid(86_400_000_000_000);
        }
        let off2 = match u.below(4)? {
            0 | 1 => 0,
            2 => off,
            _ => gen::offset(u)?,
        };
        Ok(TimeCase { ns: ns as u64, off, off2 })
    }
    fn check(c: &TimeCase, cx: &mut Cx) -> Verdict {
        const DAY: i128 = 86_400_000_000_000;
        if c.ns as i128 >= DAY || c.off.unsigned_abs() > 86_399 || c.off2.unsigned_abs() > 86_399 {
            return Verdict::Skip("malformed case");
        }
        let o = Offset::Fixed(c.off);
        let local = (c.ns as i128 + c.off as i128 * tl::NS).rem_euclid(DAY);
        if c.ns as i128 + (c.off as i128 * tl::NS) < 0 || c.ns as i128 + c.off as i128 * tl::NS >= DAY {
            cx.nt("time_wraps_around");
        }
        if c.off % 3600 != 0 {
            cx.nt("offset_not_whole_hour");
        }
        if c.off != 0 && (local == 0 || local == DAY - 1) {
            cx.nt("local_time_exactly_at_the_wrap");
        }
        let fields = |n: i128| {
            let s = (n / tl::NS) as u32;
            let sub = (n % tl::NS) as u32;
            (s / 3600, s / 60 % 60, s % 60, sub / 1_000_000, sub / 1_000, sub)
        };
        let obs = |t: &Time| ((t.hour(), t.minute(), t.second(), t.milli(), t.micro(), t.nano()), t.as_nanos(), t.get_offset(), t.format("HH:mm:ss.nnnnn xxxxx"));
        let r = catch(|| {
            let v = mk_time(c.ns);
            let w = v.set_offset(o);
            let x = v.as_offset(o);
            let w2 = w.set_offset(Offset::Fixed(c.off2));
            (obs(&v), obs(&w), v == w, v.cmp(&w), w.nanos_since(&v), w.hours_since(&v), obs(&x), obs(&w2))
        });
        let (ov, ow, eq, cmp, ns_since, h_since, ox, ow2) = match r {
            Ok(v) => v,
            Err(p) => return fail("c10.time_panic", format!("Time set_offset/as_offset({}) on {} ns return", c.off, c.ns), p.short()),
        };
        let what = format!("Time {} ns with offset {}", c.ns, c.off);
        ensure_eq!("c10.time_set_offset_changes_value", format!("as_nanos of {}", what), c.ns, ow.1);
        ensure_eq!("c10.time_set_offset_equality", format!("equality for {}", what), (true, std::cmp::Ordering::Equal, 0, 0), (eq, cmp, ns_since, h_since));
        ensure_eq!("c10.time_get_offset", "get_offset", o, ow.2);
        ensure_eq!("c10.time_set_offset_getters", format!("getters of {}", what), fields(local), ow.0);
        let lf = fields(local);
        ensure_eq!(
            "c10.time_set_offset_format",
            format!("format of {}", what),
            format!("{:02}:{:02}:{:02}.{:09} {}", lf.0, lf.1, lf.2, lf.5, fmt_off_colon_full(c.off)),
            ow.3
        );
        ensure_eq!("c10.time_as_offset_fields", format!("fields after as_offset for {}", what), ov.0, ox.0);
        ensure_eq!("c10.time_as_offset_value", format!("as_nanos after as_offset for {}", what), (c.ns as i128 - c.off as i128 * tl::NS).rem_euclid(DAY) as u64, ox.1);
        ensure_eq!("c10.time_as_offset_get_offset", "get_offset after as_offset", o, ox.2);
        if c.off2.abs() <= 86_399 {
            let local2 = (c.ns as i128 + c.off2 as i128 * tl::NS).rem_euclid(DAY);
            ensure_eq!(
                "c10.time_second_set_offset",
                format!("(getters, as_nanos, get_offset) of {} after a second set_offset({})", what, c.off2),
                (fields(local2), c.ns, Offset::Fixed(c.off2)),
                (ow2.0, ow2.1, ow2.2)
            );
        }
        Verdict::Pass
    }
}

#[derive(Debug, Clone, Hash, Serialize, Deserialize)]
pub struct CtorCase {
    pub secs: i32,
    pub h: i32,
    pub m: u32,
    pub s: u32,
}

pub struct OffsetCtor;
impl Prop for OffsetCtor {
    type Case = CtorCase;
    const NAME: &'static str = "C10.offset_constructors";
    const BYTES: usize = 48;
    fn gen(u: &mut Unstructured<'_>) -> arbitrary::Result<CtorCase> {
        let secs = match u.below(6)? {
            0 => *u.choose(&[0i32, 1, -1, 86_399, -86_399, 86_400, -86_400, 86_401, -86_401, i32::MAX, i32::MIN, i32::MIN + 1])?,
            1 => u.int_in_range(i32::MIN..=i32::MAX)?,
            2 => u.int_in_range(-90_000..=90_000i32)?,
            _ => gen::offset(u)?,
        };
        let h = match u.below(6)? {
            0 => *u.choose(&[0i32, 23, -23, 24, -24, 25, -25, i32::MAX, i32::MIN, i32::MIN + 1, 1_193_046, -1_193_046])?,
            1 => u.int_in_range(i32::MIN..=i32::MAX)?,
            _ => u.int_in_range(-25..=25i32)?,
        };
        fn ms(u: &mut Unstructured) -> arbitrary::Result<u32> {
            Ok(match u.below(6)? {
                0 => *u.choose(&[0u32, 59, 60, 61, u32::MAX, 1 << 31, 71_582_788, 71_582_789])?,
                1 => u.int_in_range(0..=u32::MAX)?,
                _ => u.int_in_range(0..=61u32)?,
            })
        }
        Ok(CtorCase { secs, h, m: ms(u)?, s: ms(u)? })
    }
    fn check(c: &CtorCase, cx: &mut Cx) -> Verdict {
        let secs_ok = (-86_399..=86_399).contains(&c.secs);
        let hms_ok = (-23..=23).contains(&c.h) && c.m <= 59 && c.s <= 59;
        if c.secs.unsigned_abs() == 86_399 || c.secs.unsigned_abs() == 86_400 {
            cx.nt("seconds_at_edge");
        }
        if !hms_ok && (-24..=24).contains(&c.h) && c.m <= 60 && c.s <= 60 {
            cx.nt("hms_one_step_outside");
        }
        if c.h < 0 && hms_ok {
            cx.nt("negative_hour");
        }
        if c.h == i32::MIN || c.m >= 1 << 31 || c.s >= 1 << 31 {
            cx.nt("extreme_argument");
        }
        let r = catch(|| {
            (
                Offset::from_seconds(c.secs).map(|o| (o, o.resolve(), o.resolve_hms())),
                Offset::from_hms(c.h, c.m, c.s).map(|o| (o, o.resolve(), o.resolve_hms())),
            )
        });
        let (a, b) = match r {
            Ok(v) => v,
            Err(p) => return fail("c10.offset_ctor_panic", format!("Offset constructors return for {:?}", c), p.short()),
        };
        match a {
            Ok((o, res, hms)) => {
                if !secs_ok {
                    return fail("c10.from_seconds_accepts_out_of_range", format!("from_seconds({}) refused", c.secs), format!("Ok({:?})", o));
                }
                let ab = c.secs.unsigned_abs();
                let want_hms = (c.secs / 3600, ab / 60 % 60, ab % 60);
                ensure_eq!("c10.from_seconds_resolve", format!("from_seconds({}).resolve()", c.secs), (Offset::Fixed(c.secs), c.secs, want_hms), (o, res, hms));
            }
            Err(e) => {
                if secs_ok {
                    return fail("c10.from_seconds_rejects_valid", format!("from_seconds({}) accepted", c.secs), format!("Err({})", e));
                }
                if !matches!(e, AstrolabeError::OutOfRange(_)) {
                    return fail("c10.from_seconds_wrong_error", "OutOfRange", format!("{:?}", e));
                }
            }
        }
        match b {
            Ok((o, res, hms)) => {
                if !hms_ok {
                    return fail("c10.from_hms_accepts_out_of_range", format!("from_hms({},{},{}) refused", c.h, c.m, c.s), format!("Ok({:?})", o));
                }
                let mag = (c.h.unsigned_abs() * 3600 + c.m * 60 + c.s) as i32;
                let want = if c.h < 0 { -mag } else { mag };
                ensure_eq!("c10.from_hms_resolve", format!("from_hms({},{},{}) resolve / resolve_hms", c.h, c.m, c.s), (want, (c.h, c.m, c.s)), (res, hms));
                let _ = o;
            }
            Err(e) => {
                if hms_ok {
                    return fail("c10.from_hms_rejects_valid", format!("from_hms({},{},{}) accepted", c.h, c.m, c.s), format!("Err({})", e));
                }
                if !matches!(e, AstrolabeError::OutOfRange(_)) {
                    return fail("c10.from_hms_wrong_error", "OutOfRange", format!("{:?}", e));
                }
            }
        }
        Verdict::Pass
    }
}

pub fn run(env: &mut Env) {
    let t = env.thorough();
    // seed-independent instants for the offset sweep
    let mut insts: Vec<Inst> = Vec::new();
    let days = [
        cal::MIN_DAY + 1, cal::MAX_DAY - 1, cal::MIN_DAY + 2, cal::MAX_DAY - 2, 0, -1, 1, cal::DAYS_TO_1970, cal::days_from_ymd(2024, 2, 29), cal::days_from_ymd(2023, 12, 31),
        cal::days_from_ymd(2024, 1, 1), cal::days_from_ymd(-5, 2, 29), cal::days_from_ymd(-1, 12, 31), cal::days_from_ymd(1, 1, 1),
        cal::days_from_ymd(1900, 2, 28), cal::days_from_ymd(2000, 3, 1), cal::days_from_ymd(9999, 12, 31), cal::days_from_ymd(10_000, 1, 1),
    ];
    for d in days {
        for ns in [0i64, 1, 43_200_000_000_000, 86_399_999_999_999] {
            insts.push(Inst { day: d, ns });
        }
    }
    let insts = std::sync::Arc::new(insts);
    let stride: i32 = if t { 1 } else { 61 };
    let n_off = (2 * 86_399 / stride + 1) as u64;
    let ii = insts.clone();
    env.run_enum::<DtOffset, _>(n_off, move |k| {
        let off = (-86_399 + k as i32 * stride).min(86_399);
        let ii = ii.clone();
        (0..ii.len()).map(move |j| Case { i: ii[j], off, off2: if j % 2 == 0 { 0 } else { -off }, local_now: if (j + off.unsigned_abs() as usize) % 7 == 3 { 1_700_000_000 + off as i64 * 1000 } else { 0 } })
    });
    env.run_enum::<TimeOffset, _>(n_off, move |k| {
        let off = (-86_399 + k as i32 * stride).min(86_399);
        (0..64u64).map(move |j| {
            let ns = match j {
                0 => (-(off as i64) * 1_000_000_000).rem_euclid(86_400_000_000_000) as u64, // local 00:00:00
                1 => (86_399_999_999_999 - off as i64 * 1_000_000_000).rem_euclid(86_400_000_000_000) as u64, // local 23:59:59.999999999
                2 => (43_200_000_000_000 - off as i64 * 1_000_000_000).rem_euclid(86_400_000_000_000) as u64, // local noon
                _ => (j * 1_371_428_571_428 + (j % 4) * 999_999_999) % 86_400_000_000_000,
            };
            TimeCase { ns, off, off2: if j % 2 == 0 { 0 } else { -off } }
        })
    });
    if t {
        env.exhaustive_parts.push("C10: every offset -86399..=86399 x 64 instants (DateTime) and x 64 times (Time)".into());
    } else {
        env.notes.push("quick: every 61st offset x 64 instants; thorough: every offset".into());
    }
    env.run_random::<DtOffset>(if t { 5_000_000 } else { 1_500_000 });
    env.run_random::<TimeOffset>(if t { 3_000_000 } else { 600_000 });
    env.run_random::<OffsetCtor>(if t { 3_000_000 } else { 1_000_000 });
}
