//! C18 — the timezone reader returns the UTC offset the TZif data defines per instant.
use crate::engine::*;
use crate::model::cal;
use crate::model::tz::{self, RuleDay, TzFile};
use crate::tzsyn::{self, Synth};
use arbitrary::Unstructured;
use astrolabe::verif::Tz;
use astrolabe::{DateTime, DateUtilities, Offset, OffsetUtilities, TimeUtilities};
#[allow(unused_imports)]
use astrolabe::DateTime as _Dt;
use serde::{Deserialize, Serialize};

#[derive(Debug, Clone, Hash, Serialize, Deserialize)]
pub enum Src {
    /// vendored file corpus/tzif/<flavour>/<file>
    File { flavour: String, file: String },
    Synth(Synth),
}

#[derive(Debug, Clone, Hash, Serialize, Deserialize)]
pub struct Case {
    pub src: Src,
    pub ts: Vec<i64>,
    /// also go through the real Offset::Local.resolve() with injected bytes and pinned clock
    pub resolve: bool,
}

pub const TS_MIN: i64 = -2_208_988_800; // 1900-01-01
pub const TS_MAX: i64 = 16_725_225_600; // 2500-01-01

pub fn bytes_of(src: &Src) -> Result<Vec<u8>, String> {
    match src {
        Src::File { flavour, file } => {
            if flavour.contains('/') || file.contains('/') || flavour.contains("..") {
                return Err("bad path".into());
            }
            std::fs::read(format!("/verif/corpus/tzif/{}/{}", flavour, file)).map_err(|e| e.to_string())
        }
        Src::Synth(s) => {
            if s.types.is_empty() || s.types.len() > 250 || s.transitions.len() > 5000 || !(1..=3).contains(&s.version) {
                return Err("malformed synth".into());
            }
            Ok(s.build())
        }
    }
}

/// interesting timestamps for a parsed reference file (deterministic in `salt`)
pub fn interesting_ts(tzf: &TzFile, salt: u64, per_kind: usize) -> Vec<i64> {
    let mut out: Vec<i64> = Vec::new();
    let mut x = salt | 1;
    let mut rnd = |n: u64| {
        x ^= x << 13;
        x ^= x >> 7;
        x ^= x << 17;
        x % n.max(1)
    };
    let nt = tzf.transitions.len();
    if nt > 0 {
        let step = (nt / per_kind.max(1)).max(1);
        let start = rnd(step as u64) as usize;
        for i in (start..nt).step_by(step) {
            let t = tzf.transitions[i].0;
            out.extend([t - 1, t, t + 1]);
        }
        let last = tzf.transitions[nt - 1].0;
        out.extend([last - 1, last, last + 1, last + 86_400 * 200]);
    }
    if let Some(r) = &tzf.rule {
        for _ in 0..per_kind {
            let y = 1900 + rnd(600) as i64;
            for (inst, _) in r.events(y) {
                out.extend([inst - 1, inst, inst + 1]);
            }
            let jan1 = (cal::days_from_ymd(y, 1, 1) - cal::DAYS_TO_1970) * 86_400;
            out.extend([jan1, jan1 + 181 * 86_400, jan1 + 59 * 86_400, jan1 + 60 * 86_400 + 43_200]);
        }
    }
    // "every Unix timestamp from the first transition onward": with a footer rule and no (or an
    // early) table that includes years far from the present - before 0001-01-01 (no year 0), the
    // first and last supported years, five-digit years
    if let Some(r) = &tzf.rule {
        const FAR: [i64; 22] = [-5_879_610, -5_879_609, -400_001, -401, -400, -101, -100, -5, -4, -2, -1, 1, 2, 4, 100, 1582, 1899, 2501, 9_999, 10_000, 400_000, 5_879_610];
        for _ in 0..per_kind.min(4) {
            let y = FAR[rnd(FAR.len() as u64) as usize];
            for (inst, _) in r.events(y) {
                out.extend([inst - 1, inst, inst + 1]);
            }
            let jan1 = (cal::days_from_ymd(y, 1, 1) - cal::DAYS_TO_1970) * 86_400;
            out.extend([jan1 + 181 * 86_400, jan1 + 20 * 86_400, jan1 + 340 * 86_400]);
        }
    }
    for _ in 0..per_kind {
        out.push(TS_MIN + rnd((TS_MAX - TS_MIN) as u64) as i64);
    }
    out.sort();
    out.dedup();
    out
}

pub fn judge(c: &Case, cx: &mut Cx) -> Verdict {
    if c.ts.len() > 20_000 {
        return Verdict::Skip("malformed case");
    }
    let bytes = match bytes_of(&c.src) {
        Ok(b) => b,
        Err(_) => return Verdict::Skip("malformed case"),
    };
    let tzf = match tz::read(&bytes) {
        Ok(t) => t,
        Err(_) => return Verdict::Skip("not a well-formed TZif file for the reference reader"),
    };
    if tzf.footer.as_deref() == Some("") && tzf.transitions.is_empty() {
        return Verdict::Skip("empty footer and no transitions (unspecified)");
    }
    let name = match &c.src {
        Src::File { flavour, file } => {
            if flavour == "slim" {
                cx.nt("slim_file");
            } else {
                cx.label("fat_file");
            }
            format!("{}/{}", flavour, file)
        }
        Src::Synth(s) => {
            cx.label(match s.version {
                1 => "synth_v1",
                2 => "synth_v2",
                _ => "synth_v3",
            });
            format!("synthesized v{} footer {:?} ({} transitions)", s.version, s.footer, s.transitions.len())
        }
    };
    if let Some(r) = &tzf.rule {
        if let Some(d) = &r.dst {
            // southern hemisphere: DST start later in the year than its end
            if tz::rule_date(&d.start, 2023) > tz::rule_date(&d.end, 2023) {
                cx.nt("southern_hemisphere_rule");
            }
            if d.start_time < 0 || d.start_time > 86_400 || d.end_time < 0 || d.end_time > 86_400 {
                cx.nt("v3_time_outside_0..24h");
            }
            if matches!(d.start, RuleDay::Julian(_)) || matches!(d.end, RuleDay::Julian(_)) {
                cx.label("julian_rule");
            }
        }
    }
    let parsed = match catch(|| Tz::parse(&bytes)) {
        Err(p) => return fail("c18.parse_panic", format!("parsing {} returns", name), p.short()),
        Ok(Err(e)) => return fail("c18.rejects_well_formed", format!("{} is accepted", name), format!("Err({})", e)),
        Ok(Ok(t)) => t,
    };
    let first = tzf.transitions.first().map(|t| t.0);
    let last = tzf.transitions.last().map(|t| t.0);
    for &t in &c.ts {
        if !(super::c03::MIN_TS + 172_800..super::c03::MAX_TS - 172_800).contains(&t) {
            continue;
        }
        let Some(want) = tzf.offset_at(t) else { continue };
        cx.extra_evals += 1;
        let at_transition = tzf.transitions.binary_search_by(|p| p.0.cmp(&t)).is_ok();
        if at_transition {
            cx.nt("ts_exactly_at_a_transition");
        }
        if !(-62_135_596_800..253_402_300_800).contains(&t) {
            cx.nt("ts_outside_years_1..9999");
        }
        let after_table_with_footer = tzf.rule.is_some() && matches!(last, Some(l) if t >= l);
        if after_table_with_footer {
            cx.nt("after_last_transition_with_table_and_footer");
        }
        let mut julian_leap = false;
        if let Some(r) = &tzf.rule {
            if let Some(d) = &r.dst {
                let (y, _, _) = cal::ymd_from_days(t.div_euclid(86_400) + cal::DAYS_TO_1970);
                if cal::is_leap(y) && (matches!(d.start, RuleDay::Julian(n) if n >= 60) || matches!(d.end, RuleDay::Julian(n) if n >= 60)) && (last.is_none() || t >= last.unwrap()) {
                    cx.nt("Jn>=60_in_a_leap_year");
                    julian_leap = true;
                }
            }
        }
        let got = match catch(|| parsed.offset_at(t)) {
            Ok(g) => g,
            Err(p) => return fail("c18.lookup_panic", format!("{}: offset at {} = {}", name, t, want), p.short()),
        };
        if got != want {
            let sig = if after_table_with_footer && !tzf.transitions.is_empty() && Some(got) == last.map(|_| tzf.utoffs[tzf.transitions.last().unwrap().1]) && !at_transition {
                "c18.footer_ignored_after_last_transition"
            } else if at_transition {
                "c18.transition_instant_previous_type"
            } else if julian_leap {
                "c18.julian_day_leap_year_shift"
            } else {
                "c18.wrong_offset"
            };
            return fail(
                sig,
                format!("{}: offset at {} ({}) = {}", name, t, crate::obs::fmt_instant((t as i128 + crate::model::tl::EPOCH_1970_S as i128) * 1_000_000_000), want),
                format!("{}", got),
            );
        }
        let _ = first;
    }
    // A look-up is a function of (file, timestamp) only: the same questions asked again in another
    // order (outside-in, so consecutive questions jump across the whole table), interleaved with
    // look-ups on an unrelated fixed-offset zone parsed in between, give the same answers.
    {
        let judged: Vec<(i64, i32)> = c
            .ts
            .iter()
            .filter(|t| (super::c03::MIN_TS + 172_800..super::c03::MAX_TS - 172_800).contains(*t))
            .filter_map(|&t| tzf.offset_at(t).map(|w| (t, w)))
            .collect();
        let n = judged.len();
        if n >= 2 {
            cx.label("asked_again_in_another_order");
            let other = catch(|| Tz::parse(&other_zone_bytes()));
            let other = match other {
                Ok(Ok(o)) => Some(o),
                _ => None,
            };
            for k in 0..n {
                let i = if k % 2 == 0 { k / 2 } else { n - 1 - k / 2 };
                let (t, want) = judged[i];
                cx.extra_evals += 1;
                if let Some(o) = &other {
                    match catch(|| o.offset_at(t)) {
                        Ok(4_500) => {}
                        Ok(g) => return fail("c18.wrong_offset", format!("fixed zone <+0115>-1:15 looked up at {} between look-ups on {} = 4500", t, name), format!("{}", g)),
                        Err(p) => return fail("c18.lookup_panic", format!("fixed zone <+0115>-1:15 at {} returns", t), p.short()),
                    }
                }
                match catch(|| parsed.offset_at(t)) {
                    Ok(g) if g == want => {}
                    Ok(g) => return fail("c18.answer_depends_on_call_order", format!("{}: offset at {} asked again (after other look-ups) = {}", name, t, want), format!("{}", g)),
                    Err(p) => return fail("c18.lookup_panic", format!("{}: offset at {} (second time) = {}", name, t, want), p.short()),
                }
            }
        }
    }
    // end to end: what Offset::Local applies "now"
    if c.resolve {
        cx.nt("through_Offset::Local.resolve()");
        for &t in c.ts.iter().take(6) {
            if !(TS_MIN..TS_MAX).contains(&t) {
                continue;
            }
            let Some(want) = tzf.offset_at(t) else { continue };
            let r = catch(|| {
                // the offset is a function of (zone file, instant): another zone resolved at the very
                // same pinned instant directly before must not leak into the answer
                astrolabe::verif::set_localtime(Some(Ok(other_zone_bytes())));
                astrolabe::verif::set_now(Some(DateTime::from_timestamp(t)));
                let before = Offset::Local.resolve();
                if before != 4_500 {
                    panic!("fixed zone <+0115>-1:15 resolved at {} gives {}", t, before);
                }
                astrolabe::verif::set_localtime(Some(Ok(bytes.clone())));
                // the clock also shows fractions of a second: the offset in force during the whole
                // second `t` is the one at `t` (before 1970 too, where seconds count down)
                let sub = [0u32, 1, 250_000_000, 999_999_999][(t as u64 ^ (t as u64 >> 7)) as usize % 4];
                let now = DateTime::from_timestamp(t);
                astrolabe::verif::set_now(Some(if sub == 0 { now } else { now.add_nanos(sub) }));
                let got = Offset::Local.resolve();
                // the documented entry point: the current time read in the local zone
                let d = DateTime::now_local();
                (got, d.get_offset() == Offset::Local, d.timestamp(), (d.year(), d.month(), d.day(), d.hour(), d.minute(), d.second()), d.format("xxxxx"))
            });
            astrolabe::verif::set_localtime(None);
            astrolabe::verif::set_now(None);
            match r {
                Err(p) => return fail("c18.resolve_panic", format!("{}: Offset::Local.resolve() / DateTime::now_local() at {} = {}", name, t, want), p.short()),
                Ok((got, is_local, stamp, fields, zone)) => {
                    if got != want {
                        return fail("c18.resolve_wrong_offset", format!("{}: Offset::Local.resolve() at {} = {}", name, t, want), format!("{}", got));
                    }
                    let f = crate::model::tl::fields((t as i128 + crate::model::tl::EPOCH_1970_S as i128 + want as i128) * 1_000_000_000);
                    let want_now = (true, t, (f.year as i32, f.month, f.dom, f.hour, f.minute, f.second), super::c10::fmt_off_colon_full(want));
                    if (is_local, stamp, fields, zone.clone()) != want_now {
                        return fail(
                            "c18.now_local_reading",
                            format!("{}: DateTime::now_local() at {} (offset {}) reads (Offset::Local, timestamp, y-m-d h:m:s, zone) = {:?}", name, t, want, want_now),
                            format!("{:?}", (is_local, stamp, fields, zone)),
                        );
                    }
                }
            }
        }
    }
    Verdict::Pass
}

/// a minimal version-2 file without transitions: one type, footer `<+0115>-1:15`
fn other_zone_bytes() -> Vec<u8> {
    Synth { version: 2, types: vec![(4_500, false)], transitions: vec![], v1_populated: false, footer: Some("<+0115>-1:15".into()), indicators: false, leaps: 0 }.build()
}

pub struct Lookup;
impl Prop for Lookup {
    type Case = Case;
    const NAME: &'static str = "C18.lookup";
    const BYTES: usize = 600;
    fn gen(u: &mut Unstructured<'_>) -> arbitrary::Result<Case> {
        let synth = tzsyn::gen_synth(u)?;
        let bytes = synth.build();
        let salt: u64 = u.arbitrary()?;
        let ts = match tz::read(&bytes) {
            Ok(tzf) => interesting_ts(&tzf, salt, 6),
            Err(_) => vec![0],
        };
        Ok(Case { src: Src::Synth(synth), ts, resolve: u.int_in_range(0..=9u8)? == 0 })
    }
    fn check(c: &Case, cx: &mut Cx) -> Verdict {
        let v = judge(c, cx);
        astrolabe::verif::set_localtime(None);
        astrolabe::verif::set_now(None);
        v
    }
}

pub fn corpus_index() -> Vec<(String, String)> {
    let mut v = Vec::new();
    for flavour in ["fat", "slim"] {
        if let Ok(rd) = std::fs::read_dir(format!("/verif/corpus/tzif/{}", flavour)) {
            let mut names: Vec<String> = rd.filter_map(|e| e.ok()).map(|e| e.file_name().to_string_lossy().into_owned()).collect();
            names.sort();
            for n in names {
                v.push((flavour.to_string(), n));
            }
        }
    }
    v
}

pub fn run(env: &mut Env) {
    let t = env.thorough();
    let idx = std::sync::Arc::new(corpus_index());
    if idx.len() < 700 {
        env.notes.push(format!("only {} vendored zone files found", idx.len()));
    }
    let per_kind = if t { 700 } else { 50 };
    let seed = env.seed;
    let i2 = idx.clone();
    env.run_enum::<Lookup, _>(idx.len() as u64, move |k| {
        let (flavour, file) = i2[k as usize].clone();
        let src = Src::File { flavour: flavour.clone(), file: file.clone() };
        let ts = match bytes_of(&src).ok().and_then(|b| tz::read(&b).ok()) {
            Some(tzf) => interesting_ts(&tzf, derive_seed(seed, &[&flavour, &file], 0), per_kind),
            None => vec![0],
        };
        std::iter::once(Case { src, ts, resolve: k % 10 == 0 })
    });
    env.exhaustive_parts.push(format!("C18: all {} vendored zoneinfo files (fat + slim), timestamps at sampled transitions -1/0/+1, rule switch instants +-1 s, 1 Jan / 1 Jul / 28 Feb-1 Mar of sampled years, random in 1900-2500", idx.len()));
    env.run_random::<Lookup>(if t { 1_000_000 } else { 100_000 });
}
