//! C06 — elapsed-unit differences are the exact difference truncated toward zero.
use crate::engine::*;
use crate::gen::{self, Inst};
use crate::model::{cal, tl};
use crate::obs::*;
use crate::props::c03::PairCase;
use crate::ensure_eq;
use arbitrary::Unstructured;
use astrolabe::{DateUtilities, Offset, OffsetUtilities, TimeUtilities};
use serde::{Deserialize, Serialize};

pub struct Since;
impl Prop for Since {
    type Case = PairCase;
    const NAME: &'static str = "C06.since";
    const BYTES: usize = 96;
    fn gen(u: &mut Unstructured<'_>) -> arbitrary::Result<PairCase> {
        let a = gen::inst(u, 1)?;
        let b = gen::inst_near(u, a, 1)?;
        let oa = gen::offset(u)?;
        // both operands in the same zone one time in four
        let ob = if u.coin(1, 4)? { oa } else { gen::offset(u)? };
        Ok(PairCase { a, b, oa, ob })
    }
    fn check(c: &PairCase, cx: &mut Cx) -> Verdict {
        if !c.a.valid() || !c.b.valid() || c.oa.unsigned_abs() > 86_399 || c.ob.unsigned_abs() > 86_399 {
            return Verdict::Skip("malformed case");
        }
        if c.a.day < cal::MIN_DAY + 1 || c.a.day > cal::MAX_DAY - 1 || c.b.day < cal::MIN_DAY + 1 || c.b.day > cal::MAX_DAY - 1 {
            return Verdict::Skip("on an outermost day of the range (set_offset undefined there)");
        }
        let (ia, ib) = (c.a.i(), c.b.i());
        let delta = ia - ib;
        if (ia < 0) != (ib < 0) {
            cx.nt("straddles_day0");
        }
        if ia < 0 && ib < 0 {
            cx.nt("both_before_day0");
        }
        for unit in 0..6u8 {
            let un = tl::unit_ns(unit);
            if delta != 0 && delta.abs() < un {
                cx.nt("less_than_one_unit");
            }
            // sub-unit remainders ordered opposite to the totals
            let (ra, rb) = (ia.rem_euclid(un), ib.rem_euclid(un));
            if (delta > 0 && ra < rb) || (delta < 0 && ra > rb) {
                cx.nt("remainders_opposite_to_totals");
            }
        }
        if c.oa != c.ob {
            cx.label("different_offsets");
        }
        let route = ((c.a.ns ^ c.b.ns ^ c.a.day) % 24) as u8;
        if route != 0 && route < 12 {
            cx.label("operand_built_through_an_operator_route");
        }
        let r = catch(|| {
            let a = if route < 12 { mk_dt_route(ia, route).set_offset(Offset::Fixed(c.oa)) } else {
                let (v, local) = mk_dt_off_pin(ia, c.oa);
                if local {
                    cx.nt("operand_carries_Offset::Local");
                }
                v
            };
            let b = if route < 12 { mk_dt_route(ib, (route + 7) % 12).set_offset(Offset::Fixed(c.ob)) } else { mk_dt_off(ib, c.ob) };
            let ab: [i128; 7] = [
                a.days_since(&b) as i128,
                a.hours_since(&b) as i128,
                a.minutes_since(&b) as i128,
                a.seconds_since(&b) as i128,
                a.millis_since(&b),
                a.micros_since(&b),
                a.nanos_since(&b),
            ];
            let ba: [i128; 7] = [
                b.days_since(&a) as i128,
                b.hours_since(&a) as i128,
                b.minutes_since(&a) as i128,
                b.seconds_since(&a) as i128,
                b.millis_since(&a),
                b.micros_since(&a),
                b.nanos_since(&a),
            ];
            (ab, ba, a.duration_between(&b), b.duration_between(&a))
        });
        let (ab, ba, d1, d2) = match r {
            Ok(v) => v,
            Err(p) => return fail("c06.dt_since_panic", "*_since / duration_between return", p.short()),
        };
        let what = format!("{} [{}] since {} [{}]", fmt_instant(ia), c.oa, fmt_instant(ib), c.ob);
        for unit in 0..7u8 {
            let want = tl::trunc_div(delta, tl::unit_ns(unit));
            let name = tl::UNIT_NAMES[unit as usize];
            if ab[unit as usize] != want {
                return fail(&format!("c06.dt_{}_since", name), format!("{}_since: {} = {}", name, what, want), format!("{}", ab[unit as usize]));
            }
            if ba[unit as usize] != -want {
                return fail(&format!("c06.dt_{}_since_antisymmetry", name), format!("reverse {}_since: {} = {}", name, what, -want), format!("{}", ba[unit as usize]));
            }
        }
        let want_dur = delta.unsigned_abs();
        ensure_eq!("c06.dt_duration_between", format!("duration_between {}", what), want_dur, d1.as_nanos());
        ensure_eq!("c06.dt_duration_between_symmetry", format!("reverse duration_between {}", what), want_dur, d2.as_nanos());

        // Date
        let r = catch(|| {
            let a = mk_date(c.a.day);
            let b = mk_date(c.b.day);
            (a.days_since(&b), b.days_since(&a), a.duration_between(&b), b.duration_between(&a))
        });
        match r {
            Err(p) => return fail("c06.date_since_panic", "Date::days_since / duration_between return", p.short()),
            Ok((s1, s2, d1, d2)) => {
                let dd = c.a.day - c.b.day;
                ensure_eq!("c06.date_days_since", format!("Date days_since {} {}", c.a.day, c.b.day), (dd, -dd), (s1, s2));
                let w = std::time::Duration::from_secs(dd.unsigned_abs() * 86_400);
                ensure_eq!("c06.date_duration_between", "Date duration_between", (w, w), (d1, d2));
            }
        }
        // Time (differences of the stored time of day)
        let r = catch(|| {
            let a = mk_time(c.a.ns as u64).set_offset(Offset::Fixed(c.oa));
            let b = mk_time(c.b.ns as u64).set_offset(Offset::Fixed(c.ob));
            let ab: [i64; 6] = [
                a.hours_since(&b) as i64,
                a.minutes_since(&b) as i64,
                a.seconds_since(&b) as i64,
                a.millis_since(&b),
                a.micros_since(&b),
                a.nanos_since(&b),
            ];
            let ba: [i64; 6] = [
                b.hours_since(&a) as i64,
                b.minutes_since(&a) as i64,
                b.seconds_since(&a) as i64,
                b.millis_since(&a),
                b.micros_since(&a),
                b.nanos_since(&a),
            ];
            (ab, ba, a.duration_between(&b), b.duration_between(&a))
        });
        match r {
            Err(p) => return fail("c06.time_since_panic", "Time *_since return", p.short()),
            Ok((ab, ba, d1, d2)) => {
                let dt = (c.a.ns - c.b.ns) as i128;
                if dt != 0 && dt.abs() < tl::NS {
                    cx.nt("time_subsecond_apart");
                }
                for unit in 1..7u8 {
                    let want = tl::trunc_div(dt, tl::unit_ns(unit)) as i64;
                    let name = tl::UNIT_NAMES[unit as usize];
                    if ab[unit as usize - 1] != want {
                        return fail(&format!("c06.time_{}_since", name), format!("Time {}_since ({} - {} ns) = {}", name, c.a.ns, c.b.ns, want), format!("{}", ab[unit as usize - 1]));
                    }
                    if ba[unit as usize - 1] != -want {
                        return fail(&format!("c06.time_{}_since_antisymmetry", name), format!("{}", -want), format!("{}", ba[unit as usize - 1]));
                    }
                }
                ensure_eq!("c06.time_duration_between", "Time duration_between", (dt.unsigned_abs(), dt.unsigned_abs()), (d1.as_nanos(), d2.as_nanos()));
            }
        }
        Verdict::Pass
    }
}

#[derive(Debug, Clone, Hash, Serialize, Deserialize)]
pub struct InvCase {
    pub a: Inst,
    pub off: i32,
    pub unit: u8,
    pub n: u32,
    pub sub: bool,
}

/// `a.add_x(n).x_since(a) == n` (and `a.sub_x(n).x_since(a) == -n`) whenever representable
pub struct Inverts;
impl Prop for Inverts {
    type Case = InvCase;
    const NAME: &'static str = "C06.inverts_add";
    const BYTES: usize = 64;
    fn gen(u: &mut Unstructured<'_>) -> arbitrary::Result<InvCase> {
        Ok(InvCase { a: gen::inst(u, 1)?, off: gen::offset(u)?, unit: u.below(7)? as u8, n: gen::count(u)?, sub: u.coin(1, 2)? })
    }
    fn check(c: &InvCase, cx: &mut Cx) -> Verdict {
        if !c.a.valid() || c.off.unsigned_abs() > 86_399 || c.unit > 6 || c.a.day < cal::MIN_DAY + 1 || c.a.day > cal::MAX_DAY - 1 {
            return Verdict::Skip("malformed case");
        }
        let ia = c.a.i();
        let amount = c.n as i128 * tl::unit_ns(c.unit);
        let target = if c.sub { ia - amount } else { ia + amount };
        if !tl::representable(target) {
            return Verdict::Skip("sum not representable (C04 covers the panic)");
        }
        if (ia < 0) != (target < 0) {
            cx.nt("crosses_day0");
        }
        if c.n >= 1 << 31 {
            cx.nt("n>=2^31");
        }
        if ia.rem_euclid(tl::unit_ns(c.unit)) != 0 {
            cx.nt("unaligned_start");
        }
        let r = catch(|| {
            let (a, local) = mk_dt_off_pin(ia, c.off);
            if local {
                cx.nt("operand_carries_Offset::Local");
            }
            let b = match (c.unit, c.sub) {
                (0, false) => a.add_days(c.n),
                (0, true) => a.sub_days(c.n),
                (1, false) => a.add_hours(c.n),
                (1, true) => a.sub_hours(c.n),
                (2, false) => a.add_minutes(c.n),
                (2, true) => a.sub_minutes(c.n),
                (3, false) => a.add_seconds(c.n),
                (3, true) => a.sub_seconds(c.n),
                (4, false) => a.add_millis(c.n),
                (4, true) => a.sub_millis(c.n),
                (5, false) => a.add_micros(c.n),
                (5, true) => a.sub_micros(c.n),
                (_, false) => a.add_nanos(c.n),
                (_, true) => a.sub_nanos(c.n),
            };
            match c.unit {
                0 => b.days_since(&a) as i128,
                1 => b.hours_since(&a) as i128,
                2 => b.minutes_since(&a) as i128,
                3 => b.seconds_since(&a) as i128,
                4 => b.millis_since(&a),
                5 => b.micros_since(&a),
                _ => b.nanos_since(&a),
            }
        });
        let want = if c.sub { -(c.n as i128) } else { c.n as i128 };
        match r {
            Err(p) => fail("c06.inverts_panic", "add then since returns", p.short()),
            Ok(got) => {
                ensure_eq!(
                    "c06.since_does_not_invert_add",
                    format!("{}_since after {}{} on {}", tl::UNIT_NAMES[c.unit as usize], if c.sub { "sub " } else { "add " }, c.n, fmt_instant(ia)),
                    want,
                    got
                );
                Verdict::Pass
            }
        }
    }
}

pub fn run(env: &mut Env) {
    let t = env.thorough();
    env.run_random::<Since>(if t { 20_000_000 } else { 3_000_000 });
    env.run_random::<Inverts>(if t { 10_000_000 } else { 1_500_000 });
}
