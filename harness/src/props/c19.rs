//! C19 — malformed or hostile timezone data is rejected, never a crash.
use crate::engine::*;
use crate::model::cal;
use crate::props::c18::{self, Src};
use crate::tzsyn;
use arbitrary::Unstructured;
use astrolabe::verif::Tz;
use astrolabe::{DateTime, DateUtilities, Offset};
use serde::{Deserialize, Serialize};

#[derive(Debug, Clone, Hash, Serialize, Deserialize)]
pub enum Mut {
    /// header 0 = first, 1 = second; field 0..6 = isut, isstd, leap, time, type, char
    SetCount { header: u8, field: u8, value: u32 },
    /// relative adjustment of a count (exact -1 / +1)
    AdjCount { header: u8, field: u8, delta: i8 },
    /// truncate to `at` bytes (scaled into the length: at/65536 of the file)
    Truncate { frac: u16 },
    /// transition type byte #k (modulo the number of transitions) of the last block
    SetTypeIdx { k: u16, value: u8 },
    /// any byte
    SetByte { frac: u16, value: u8 },
    /// replace the footer (bytes between/including the newlines are rebuilt)
    Footer { text: Vec<u8>, leading_nl: bool, trailing_nl: bool },
    /// byte `at` (0..20: magic, version, reserved) of the first / second header
    SetHeaderByte { header: u8, at: u8, value: u8 },
}

#[derive(Debug, Clone, Hash, Serialize, Deserialize)]
pub struct Case {
    pub base: Src,
    pub muts: Vec<Mut>,
    /// extra lookups in addition to the structural ones
    pub ts: Vec<i64>,
    pub resolve: bool,
}

struct Layout {
    h2: Option<usize>,
    /// start of the transition type bytes of the last block, number of transitions
    types_at: usize,
    ntrans: usize,
    footer_at: Option<usize>,
}

fn be32(b: &[u8], at: usize) -> usize {
    b.get(at..at + 4).map(|s| u32::from_be_bytes(s.try_into().unwrap()) as usize).unwrap_or(0)
}

fn layout(b: &[u8]) -> Layout {
    let counts = |h: usize| -> [usize; 6] { [be32(b, h + 20), be32(b, h + 24), be32(b, h + 28), be32(b, h + 32), be32(b, h + 36), be32(b, h + 40)] };
    let blen = |c: &[usize; 6], ts: usize| c[3].saturating_mul(ts).saturating_add(c[3]).saturating_add(c[4].saturating_mul(6)).saturating_add(c[5]).saturating_add(c[2].saturating_mul(ts + 4)).saturating_add(c[1]).saturating_add(c[0]);
    let c1 = counts(0);
    if b.get(4) == Some(&0) || b.len() < 44 {
        return Layout { h2: None, types_at: 44usize.saturating_add(c1[3].saturating_mul(4)), ntrans: c1[3], footer_at: None };
    }
    let h2 = 44usize.saturating_add(blen(&c1, 4));
    let c2 = counts(h2);
    let data = h2.saturating_add(44);
    Layout { h2: Some(h2), types_at: data.saturating_add(c2[3].saturating_mul(8)), ntrans: c2[3], footer_at: Some(data.saturating_add(blen(&c2, 8))) }
}

pub fn apply(bytes: &mut Vec<u8>, m: &Mut) {
    let l = layout(bytes);
    match m {
        Mut::SetCount { header, field, value } => {
            let h = if *header == 0 { Some(0) } else { l.h2 };
            if let Some(h) = h {
                let at = h + 20 + 4 * (*field as usize % 6);
                if at + 4 <= bytes.len() {
                    bytes[at..at + 4].copy_from_slice(&value.to_be_bytes());
                }
            }
        }
        Mut::AdjCount { header, field, delta } => {
            let h = if *header == 0 { Some(0) } else { l.h2 };
            if let Some(h) = h {
                let at = h + 20 + 4 * (*field as usize % 6);
                if at + 4 <= bytes.len() {
                    let v = (be32(bytes, at) as u32).wrapping_add(*delta as i32 as u32);
                    bytes[at..at + 4].copy_from_slice(&v.to_be_bytes());
                }
            }
        }
        Mut::Truncate { frac } => {
            let at = (bytes.len() as u64 * *frac as u64 / 65_536) as usize;
            bytes.truncate(at);
        }
        Mut::SetTypeIdx { k, value } => {
            if l.ntrans > 0 {
                let at = l.types_at.saturating_add(*k as usize % l.ntrans);
                if at < bytes.len() {
                    bytes[at] = *value;
                }
            }
        }
        Mut::SetHeaderByte { header, at, value } => {
            let h = if *header == 0 { Some(0) } else { l.h2 };
            if let Some(h) = h {
                let at = h + (*at as usize % 20);
                if at < bytes.len() {
                    bytes[at] = *value;
                }
            }
        }
        Mut::SetByte { frac, value } => {
            if !bytes.is_empty() {
                let at = (bytes.len() as u64 * *frac as u64 / 65_536) as usize;
                bytes[at] = *value;
            }
        }
        Mut::Footer { text, leading_nl, trailing_nl } => {
            if let Some(f) = l.footer_at {
                if f <= bytes.len() {
                    bytes.truncate(f);
                    if *leading_nl {
                        bytes.push(b'\n');
                    }
                    bytes.extend_from_slice(text);
                    if *trailing_nl {
                        bytes.push(b'\n');
                    }
                }
            }
        }
    }
}

/// syntactically valid footers whose meaning is degenerate: both rules denote the same UTC instant
/// (same day, times one DST shift apart; the same rule twice with equal offsets), rules that meet
/// only in some years (J60 vs day 59, a weekday rule landing on a fixed day), a DST offset equal
/// to / below the standard offset, the two switch-overs a few hours or a whole year apart
fn degenerate_footer(u: &mut Unstructured) -> arbitrary::Result<String> {
    fn hms(secs: i32) -> String {
        let a = secs.unsigned_abs();
        let sign = if secs < 0 { "-" } else { "" };
        if a % 60 != 0 {
            format!("{}{}:{:02}:{:02}", sign, a / 3600, a / 60 % 60, a % 60)
        } else if a % 3600 != 0 {
            format!("{}{}:{:02}", sign, a / 3600, a / 60 % 60)
        } else {
            format!("{}{}", sign, a / 3600)
        }
    }
    let std = *u.choose(&[0i32, 3600, -18_000, 19_800, -3600, 43_200])?; // utoff
    let delta = *u.choose(&[3600i32, 3600, 0, 0, 1800, -3600, 7200])?;
    let dst = std + delta;
    let explicit = delta != 3600 || u.ratio(1, 2)?;
    let head = format!("S{}D{}", hms(-std), if explicit { hms(-dst) } else { String::new() });
    let day = |u: &mut Unstructured| -> arbitrary::Result<String> {
        Ok(match u.int_in_range(0..=4u8)? {
            0 => format!("J{}", *u.choose(&[1u32, 59, 60, 61, 100, 365])?),
            1 => format!("{}", *u.choose(&[0u32, 58, 59, 60, 99, 364, 365])?),
            2 => format!("M{}.{}.{}", *u.choose(&[1u32, 2, 3, 10, 12])?, u.int_in_range(1..=5u32)?, u.int_in_range(0..=6u32)?),
            3 => "M3.1.3".to_string(),
            _ => "J60".to_string(),
        })
    };
    let a = day(u)?;
    let b = if u.ratio(2, 3)? { a.clone() } else { day(u)? };
    // rule 1 = start of DST, given in standard time; rule 2 = end of DST, given in DST
    let t1 = *u.choose(&[7200i32, 0, 3600, 5400, -3600, 86_400])?;
    let t2 = match u.int_in_range(0..=3u8)? {
        0 | 1 => t1 + delta,          // the same UTC instant
        2 => t1,                      // the same wall-clock reading
        _ => t1 + delta + *u.choose(&[-1i32, 1, 60, -3600])?, // next to it
    };
    let t = |v: i32| if v == 7200 { String::new() } else { format!("/{}", hms(v)) };
    Ok(format!("{},{}{},{}{}", head, a, t(t1), b, t(t2)))
}

fn hostile_footer(u: &mut Unstructured) -> arbitrary::Result<Vec<u8>> {
    fn num(u: &mut Unstructured, ok_lo: i64, ok_hi: i64) -> arbitrary::Result<String> {
        Ok(match u.int_in_range(0..=9u8)? {
            0 => (ok_lo - 1).to_string(),
            1 => (ok_hi + 1).to_string(),
            2 => "99".to_string(),
            3 => "99999999999999999999".to_string(),
            4 => String::new(),
            5 => "-1".to_string(),
            6 => "4294967296".to_string(),
            7 => "255".to_string(),
            _ => u.int_in_range(ok_lo..=ok_hi)?.to_string(),
        })
    }
    fn rule(u: &mut Unstructured) -> arbitrary::Result<String> {
        let mut s = match u.int_in_range(0..=5u8)? {
            0 => format!("J{}", num(u, 1, 365)?),
            1 => num(u, 0, 365)?,
            2 | 3 => format!("M{}.{}.{}", num(u, 1, 12)?, num(u, 1, 5)?, num(u, 0, 6)?),
            4 => format!("M{}.{}", num(u, 1, 12)?, num(u, 1, 5)?),
            _ => (*u.choose(&["J", "M", "M3", "M3.", "M3.5.", "Mx.1.0", "j60", "", "J0", "J366", "365", "366", "M13.1.0", "M3.0.0", "M3.6.0", "M3.5.7", "M0.1.0", "M2.5.0", "M12.5.6"])?).to_string(),
        };
        s.push_str(match u.int_in_range(0..=14u8)? {
            // more colon-separated fields than hh:mm:ss has
            12 => "/2:0:0:0",
            13 => "/1:2:3:4:5",
            14 => "/-3:00:00:",
            0 => "/25",
            1 => "/-168",
            2 => "/1:60",
            3 => "/24:59:59",
            4 => "/167",
            5 => "/-167:59:59",
            6 => "/",
            7 => "/2:",
            8 => "/99999999999999999999",
            9 => "/+2",
            _ => "",
        });
        Ok(s)
    }
    if u.ratio(1, 5)? {
        return Ok(degenerate_footer(u)?.into_bytes());
    }
    let mut s = String::new();
    s.push_str(*u.choose(&["STD", "<+03>", "<-0330>", "ST", "S", "", "<", "<>", "<+03", "ÉST", "EST5EDT"])?);
    s.push_str(&match u.int_in_range(0..=8u8)? {
        0 => "25".to_string(),
        1 => "-25".to_string(),
        2 => "5:60".to_string(),
        3 => (*u.choose(&["5:30:60", "5:30:10:1", "-1:0:0:0", "5:30:"])?).to_string(),
        4 => String::new(),
        5 => "99999999999999999999".to_string(),
        6 => "+".to_string(),
        _ => format!("{}", u.int_in_range(-24..=24i32)?),
    });
    if u.ratio(4, 5)? {
        s.push_str(*u.choose(&["DST", "<+04>", "D", "", "DST4", "DST-25", "DST4:60"])?);
        let commas = *u.choose(&[",", ",", ",", ",,", "", ";"])?;
        s.push_str(commas);
        s.push_str(&rule(u)?);
        s.push_str(*u.choose(&[",", ",", ",", ",,", ""])?);
        s.push_str(&rule(u)?);
        if u.ratio(1, 8)? {
            s.push_str(*u.choose(&[",", ",M1.1.1", " ", "\0", "x"])?);
        }
    }
    // a multi-byte character (or a lone continuation / lead byte) at any position: every byte-wise
    // cursor step of the footer parser can land inside it
    if u.ratio(1, 4)? && !s.is_empty() {
        let mut cs: Vec<char> = s.chars().collect();
        let pos = u.int_in_range(0..=cs.len() - 1)?;
        let ch = if u.ratio(1, 2)? { *u.choose(&['é', '€', '😀', 'ß', '日'])? } else { crate::props::c11::random_non_ascii(u)? };
        if u.ratio(1, 2)? {
            cs[pos] = ch;
        } else {
            cs.insert(pos, ch);
        }
        s = cs.into_iter().collect();
    }
    let mut b = s.into_bytes();
    if u.ratio(1, 20)? {
        b.push(0xff);
    }
    if u.ratio(1, 20)? {
        b.insert(0, b':');
    }
    Ok(b)
}

fn gen_mut(u: &mut Unstructured) -> arbitrary::Result<Mut> {
    Ok(match u.int_in_range(0..=12u8)? {
        12 => Mut::SetHeaderByte { header: u.int_in_range(0..=1u8)?, at: if u.ratio(2, 3)? { 4 } else { u.int_in_range(0..=19u8)? }, value: *u.choose(&[0u8, 1, b'1', b'2', b'3', b'4', b'5', 0xff])? },
        0 | 1 => Mut::SetCount { header: u.int_in_range(0..=1u8)?, field: u.int_in_range(0..=5u8)?, value: *u.choose(&[0u32, 1, 2, 255, 256, 65_535, 1 << 31, u32::MAX, 715_827_883, 536_870_912, 4_294_967_295 / 6 + 1])? },
        2 => Mut::AdjCount { header: u.int_in_range(0..=1u8)?, field: u.int_in_range(0..=5u8)?, delta: *u.choose(&[-1i8, 1, 2, -2])? },
        3 => Mut::Truncate { frac: u.arbitrary()? },
        4 => Mut::Truncate { frac: 65_535 - u.int_in_range(0..=2_000u16)? },
        5 => Mut::SetTypeIdx { k: u.arbitrary()?, value: *u.choose(&[255u8, 254, 128, 6, 7, 8, 20, 1, 0])? },
        6 => Mut::SetByte { frac: u.arbitrary()?, value: u.arbitrary()? },
        7 => Mut::SetByte { frac: u.int_in_range(0..=300u16)?, value: *u.choose(&[0u8, b'1', b'2', b'3', b'4', b'T', 0xff])? },
        _ => Mut::Footer { text: hostile_footer(u)?, leading_nl: u.ratio(9, 10)?, trailing_nl: u.ratio(9, 10)? },
    })
}

fn structural_ts(bytes: &[u8]) -> Vec<i64> {
    let mut ts: Vec<i64> = vec![
        0, 1, -1, 1 << 31, -(1 << 31), (1 << 31) - 1, i32::MIN as i64 - 1,
        (cal::MIN_DAY - cal::DAYS_TO_1970) * 86_400,
        (cal::MIN_DAY - cal::DAYS_TO_1970) * 86_400 + 86_400 * 400,
        (cal::MAX_DAY - cal::DAYS_TO_1970) * 86_400 + 86_399,
        (cal::MAX_DAY - cal::DAYS_TO_1970) * 86_400 - 86_400 * 400,
    ];
    for y in [2023i64, 2024, 1900, 2000, 1, -1, -5] {
        for (m, d) in [(2, 28), (3, 1), (12, 30), (12, 31), (1, 1), (1, 2), (6, 15), (10, 31)] {
            ts.push((cal::days_from_ymd(y, m, d) - cal::DAYS_TO_1970) * 86_400 + 43_200);
        }
        if cal::is_leap(y) {
            ts.push((cal::days_from_ymd(y, 2, 29) - cal::DAYS_TO_1970) * 86_400);
        }
    }
    // transition times as the damaged file states them (best effort)
    let l = layout(bytes);
    let (start, size) = match l.h2 {
        Some(h) => (h + 44, 8usize),
        None => (44, 4usize),
    };
    for i in 0..l.ntrans.min(40) {
        let at = start + i * size;
        if at + size <= bytes.len() {
            let t = if size == 4 { i32::from_be_bytes(bytes[at..at + 4].try_into().unwrap()) as i64 } else { i64::from_be_bytes(bytes[at..at + 8].try_into().unwrap()) };
            ts.extend([t.saturating_sub(1), t, t.saturating_add(1)]);
        }
    }
    ts
}

const RANGE_LO: i64 = (cal::MIN_DAY - cal::DAYS_TO_1970) * 86_400;
const RANGE_HI: i64 = (cal::MAX_DAY - cal::DAYS_TO_1970) * 86_400 + 86_399;

pub fn judge_bytes(bytes: &[u8], extra_ts: &[i64], resolve: bool, cx: &mut Cx) -> Verdict {
    let t0 = std::time::Instant::now();
    let parsed = match catch(|| Tz::parse(bytes)) {
        Err(p) => return fail(&format!("c19.parse_panic:{}", p.key()), format!("parsing {} bytes returns Ok or Err", bytes.len()), p.short()),
        Ok(r) => r,
    };
    match &parsed {
        Err(_) => cx.label("rejected"),
        Ok(_) => cx.nt("mutant_still_parses"),
    }
    if let Ok(tz) = &parsed {
        let mut ts = structural_ts(bytes);
        ts.extend_from_slice(extra_ts);
        for t in ts {
            if !(RANGE_LO..=RANGE_HI).contains(&t) {
                continue;
            }
            cx.extra_evals += 1;
            if let Err(p) = catch(|| tz.offset_at(t)) {
                let edge = t < RANGE_LO + 366 * 86_400 || t > RANGE_HI - 366 * 86_400;
                let sig = if edge { format!("c19.lookup_panic_in_first_or_last_year:{}", p.key()) } else { format!("c19.lookup_panic:{}", p.key()) };
                return fail(&sig, format!("offset lookup at {} on an accepted file returns", t), p.short());
            }
        }
    }
    if resolve {
        cx.nt("through_Offset::Local.resolve()");
        // the clock takes the same instants as the direct look-ups: year ends and month ends
        // included (the route through Offset::Local may ask the file further questions, such as
        // when the current offset ends)
        let mut nows: Vec<i64> = vec![0i64, 1_700_000_000, 4_102_444_800];
        for y in [2023i64, 2024, 2025, 2000] {
            for (m, d, s) in [(12, 31, 43_200), (12, 31, 86_399), (1, 1, 0), (1, 1, 43_200), (12, 30, 43_200), (1, 2, 43_200), (12, 24, 0), (1, 8, 0), (3, 1, 0), (6, 15, 43_200)] {
                nows.push((cal::days_from_ymd(y, m, d) - cal::DAYS_TO_1970) * 86_400 + s);
            }
        }
        nows.extend(extra_ts.iter().copied().filter(|t| (RANGE_LO..=RANGE_HI).contains(t)).take(12));
        for t in nows {
            let r = catch(|| {
                astrolabe::verif::set_localtime(Some(Ok(bytes.to_vec())));
                astrolabe::verif::set_now(Some(DateTime::from_timestamp(t)));
                Offset::Local.resolve()
            });
            astrolabe::verif::set_localtime(None);
            astrolabe::verif::set_now(None);
            if let Err(p) = r {
                let sig = if parsed.is_err() { "c19.resolve_unwraps_parse_error".to_string() } else { format!("c19.resolve_panic:{}", p.key()) };
                return fail(&sig, "Offset::Local.resolve() with this /etc/localtime returns", p.short());
            }
        }
        // a read error must not abort either
        let r = catch(|| {
            astrolabe::verif::set_localtime(Some(Err(())));
            Offset::Local.resolve()
        });
        astrolabe::verif::set_localtime(None);
        match r {
            Err(p) => return fail("c19.resolve_read_error_panic", "resolve() with an unreadable /etc/localtime returns", p.short()),
            Ok(v) => {
                if v != 0 {
                    return fail("c19.resolve_read_error_value", "resolve() with an unreadable /etc/localtime = 0", format!("{}", v));
                }
            }
        }
    }
    if t0.elapsed().as_secs_f64() > 2.0 {
        cx.label("slow_case_over_2s");
    }
    Verdict::Pass
}

pub struct Hostile;
impl Prop for Hostile {
    type Case = Case;
    const NAME: &'static str = "C19.hostile";
    const BYTES: usize = 700;
    fn gen(u: &mut Unstructured<'_>) -> arbitrary::Result<Case> {
        let base = if u.ratio(1, 3)? {
            // a small vendored file, chosen by index
            let idx = c18::corpus_index();
            if idx.is_empty() {
                Src::Synth(tzsyn::gen_synth(u)?)
            } else {
                let (flavour, file) = idx[u.int_in_range(0..=idx.len() - 1)?].clone();
                Src::File { flavour, file }
            }
        } else {
            Src::Synth(tzsyn::gen_synth(u)?)
        };
        let n = 1 + u.int_in_range(0..=2usize)?;
        let mut muts = Vec::new();
        for _ in 0..n {
            muts.push(gen_mut(u)?);
        }
        let mut ts = Vec::new();
        for _ in 0..4 {
            ts.push(u.int_in_range(RANGE_LO..=RANGE_HI)?);
            ts.push(u.int_in_range(c18::TS_MIN..=c18::TS_MAX)?);
        }
        Ok(Case { base, muts, ts, resolve: u.int_in_range(0..=9u8)? <= 1 })
    }
    fn check(c: &Case, cx: &mut Cx) -> Verdict {
        if c.muts.len() > 16 || c.ts.len() > 2000 {
            return Verdict::Skip("malformed case");
        }
        let mut bytes = match c18::bytes_of(&c.base) {
            Ok(b) => b,
            Err(_) => return Verdict::Skip("malformed case"),
        };
        for m in &c.muts {
            if let Mut::Footer { text, .. } = m {
                if text.len() > 500 {
                    return Verdict::Skip("malformed case");
                }
                cx.label("footer_mutant");
            }
            apply(&mut bytes, m);
        }
        let v = judge_bytes(&bytes, &c.ts, c.resolve, cx);
        astrolabe::verif::set_localtime(None);
        astrolabe::verif::set_now(None);
        v
    }
}

/// A file whose LAYOUT is consistent with its six header counts (so the parser reaches its
/// semantic checks and the look-up code) while the CONTENT is arbitrary: any count may be zero,
/// type indices point anywhere near the table end, transition times are unsorted, offsets and
/// designation indices are wild, the footer is hostile, degenerate or valid.
#[derive(Debug, Clone, Hash, Serialize, Deserialize)]
pub struct LooseBlock {
    pub times: Vec<i64>,
    pub idx: Vec<u8>,
    pub types: Vec<(i32, u8, u8)>,
    pub chars: Vec<u8>,
    pub leaps: u8,
    pub isstd: Vec<u8>,
    pub isut: Vec<u8>,
}
#[derive(Debug, Clone, Hash, Serialize, Deserialize)]
pub struct LooseCase {
    /// version byte of the second header when it differs from the first (0 = same)
    #[serde(default)]
    pub vb2: u8,
    pub version: u8,
    pub v1: LooseBlock,
    pub v2: LooseBlock,
    pub footer: Vec<u8>,
    pub ts: Vec<i64>,
    pub resolve: bool,
}

fn loose_block(u: &mut Unstructured) -> arbitrary::Result<LooseBlock> {
    let small = |u: &mut Unstructured| -> arbitrary::Result<usize> { Ok(*u.choose(&[0usize, 0, 1, 1, 2, 3, 5])?) };
    let ntypes = small(u)?;
    let ntimes = small(u)?;
    let mut times = Vec::new();
    let mut t = u.int_in_range(-3_000_000_000i64..=2_000_000_000)?;
    for _ in 0..ntimes {
        times.push(t);
        t += match u.int_in_range(0..=5u8)? {
            0 => 0,
            1 => -u.int_in_range(1..=1_000_000i64)?,
            _ => u.int_in_range(1..=40_000_000i64)?,
        };
    }
    let mut idx = Vec::new();
    for _ in 0..ntimes {
        idx.push(match u.int_in_range(0..=5u8)? {
            0 => 0,
            1 => ntypes as u8,
            2 => (ntypes as u8).wrapping_sub(1),
            3 => (ntypes as u8).wrapping_add(1),
            _ => u.int_in_range(0..=ntypes.max(1) as u8 - 1)?,
        });
    }
    let nchars = *u.choose(&[0usize, 1, 4, 8, 12])?;
    let mut types = Vec::new();
    for _ in 0..ntypes {
        let utoff = match u.int_in_range(0..=4u8)? {
            0 => *u.choose(&[i32::MIN, i32::MAX, -86_400, 86_400, 89_999, -89_999, 1 << 25, -(1 << 25)])?,
            _ => u.int_in_range(-54_000..=54_000i32)?,
        };
        types.push((utoff, *u.choose(&[0u8, 1, 1, 2, 255])?, *u.choose(&[0u8, 0, 4, 8, 11, 12, 255])?));
    }
    let mut chars = Vec::new();
    for k in 0..nchars {
        chars.push(if k % 4 == 3 && u.ratio(7, 8)? { 0 } else { *u.choose(&[b'L', b'M', b'T', b'+', b'0', 0xc3, 0])? });
    }
    let n_std = *u.choose(&[0usize, ntypes, ntypes, ntypes + 1])?;
    let n_ut = *u.choose(&[0usize, ntypes, ntypes, 1])?;
    Ok(LooseBlock { times, idx, types, chars, leaps: *u.choose(&[0u8, 0, 0, 1, 2])?, isstd: (0..n_std).map(|k| (k % 2) as u8).collect(), isut: (0..n_ut).map(|k| (k % 3 == 0) as u8).collect() })
}

fn build_loose_block(b: &LooseBlock, time_size: usize, vb: u8, out: &mut Vec<u8>) {
    out.extend_from_slice(b"TZif");
    out.push(vb);
    out.extend_from_slice(&[0u8; 15]);
    for v in [b.isut.len(), b.isstd.len(), b.leaps as usize, b.times.len(), b.types.len(), b.chars.len()] {
        out.extend_from_slice(&(v as u32).to_be_bytes());
    }
    for t in &b.times {
        if time_size == 4 {
            out.extend_from_slice(&(*t as i32).to_be_bytes());
        } else {
            out.extend_from_slice(&t.to_be_bytes());
        }
    }
    // one index byte per transition (idx is padded / cut to the number of times)
    for k in 0..b.times.len() {
        out.push(b.idx.get(k).copied().unwrap_or(0));
    }
    for (utoff, dst, des) in &b.types {
        out.extend_from_slice(&utoff.to_be_bytes());
        out.push(*dst);
        out.push(*des);
    }
    out.extend_from_slice(&b.chars);
    for k in 0..b.leaps as usize {
        if time_size == 4 {
            out.extend_from_slice(&(78_796_800i32 + k as i32 * 31_536_000).to_be_bytes());
        } else {
            out.extend_from_slice(&(78_796_800i64 + k as i64 * 31_536_000).to_be_bytes());
        }
        out.extend_from_slice(&(k as i32 + 1).to_be_bytes());
    }
    out.extend_from_slice(&b.isstd);
    out.extend_from_slice(&b.isut);
}

pub struct Loose;
impl Prop for Loose {
    type Case = LooseCase;
    const NAME: &'static str = "C19.consistent_layouts";
    const BYTES: usize = 700;
    fn gen(u: &mut Unstructured<'_>) -> arbitrary::Result<LooseCase> {
        let version = *u.choose(&[1u8, 2, 2, 3, 3])?;
        let v1 = loose_block(u)?;
        let v2 = loose_block(u)?;
        let footer = match u.int_in_range(0..=4u8)? {
            0 => Vec::new(),
            1 => hostile_footer(u)?,
            2 => degenerate_footer(u)?.into_bytes(),
            _ => tzsyn::gen_footer(u, version == 3)?.into_bytes(),
        };
        let mut ts = Vec::new();
        let blk = if version == 1 { &v1 } else { &v2 };
        for t in &blk.times {
            ts.extend([t - 1, *t, t + 1]);
        }
        if let Some(f) = blk.times.first() {
            ts.push(f - u.int_in_range(1..=100_000_000i64)?);
        }
        for _ in 0..3 {
            ts.push(u.int_in_range(c18::TS_MIN..=c18::TS_MAX)?);
        }
        Ok(LooseCase { vb2: if u.ratio(1, 6)? { *u.choose(&[1u8, b'1', b'2', b'3', b'4', 0xff])? } else { 0 }, version, v1, v2, footer, ts, resolve: u.ratio(1, 10)? })
    }
    fn check(c: &LooseCase, cx: &mut Cx) -> Verdict {
        for b in [&c.v1, &c.v2] {
            if b.times.len() > 64 || b.types.len() > 64 || b.chars.len() > 256 || b.leaps > 8 || b.isstd.len() > 80 || b.isut.len() > 80 || b.idx.len() > 64 {
                return Verdict::Skip("malformed case");
            }
        }
        if c.footer.len() > 500 || c.ts.len() > 400 {
            return Verdict::Skip("malformed case");
        }
        let vb = match c.version {
            1 => 0u8,
            2 => b'2',
            _ => b'3',
        };
        let mut bytes = Vec::new();
        build_loose_block(&c.v1, 4, vb, &mut bytes);
        if c.version != 1 {
            build_loose_block(&c.v2, 8, if c.vb2 == 0 { vb } else if c.vb2 == 1 { 0 } else { c.vb2 }, &mut bytes);
            bytes.push(b'\n');
            bytes.extend_from_slice(&c.footer);
            bytes.push(b'\n');
        }
        let blk = if c.version == 1 { &c.v1 } else { &c.v2 };
        if blk.types.is_empty() {
            cx.nt("zero_local_time_types");
        }
        if blk.types.is_empty() && !blk.times.is_empty() {
            cx.nt("transitions_without_types");
        }
        if blk.times.windows(2).any(|w| w[1] <= w[0]) {
            cx.nt("unsorted_or_repeated_transition_times");
        }
        let v = judge_bytes(&bytes, &c.ts, c.resolve, cx);
        astrolabe::verif::set_localtime(None);
        astrolabe::verif::set_now(None);
        v
    }
}

#[derive(Debug, Clone, Hash, Serialize, Deserialize)]
pub struct RawCase {
    pub bytes: Vec<u8>,
}

/// raw byte strings (committed fuzz corpus, crash inputs, the crate's own test vectors)
pub struct Raw;
impl Prop for Raw {
    type Case = RawCase;
    const NAME: &'static str = "C19.raw";
    const BYTES: usize = 300;
    fn gen(u: &mut Unstructured<'_>) -> arbitrary::Result<RawCase> {
        let mut bytes = b"TZif".to_vec();
        bytes.push(*u.choose(&[0u8, b'2', b'3', b'4', b'1'])?);
        bytes.extend_from_slice(&[0; 15]);
        let rest: Vec<u8> = u.arbitrary()?;
        bytes.extend(rest);
        Ok(RawCase { bytes })
    }
    fn check(c: &RawCase, cx: &mut Cx) -> Verdict {
        if c.bytes.len() > 1 << 20 {
            return Verdict::Skip("malformed case");
        }
        let v = judge_bytes(&c.bytes, &[], true, cx);
        astrolabe::verif::set_localtime(None);
        astrolabe::verif::set_now(None);
        v
    }
}

pub fn run(env: &mut Env) {
    let t = env.thorough();
    // systematic: every header count x value set, every truncation point, on a few small bases
    let bases: Vec<Src> = vec![
        Src::File { flavour: "slim".into(), file: "UTC".into() },
        Src::File { flavour: "slim".into(), file: "EST".into() },
        Src::File { flavour: "slim".into(), file: "Europe__Zurich".into() },
        Src::File { flavour: "fat".into(), file: "Europe__Zurich".into() },
        Src::File { flavour: "fat".into(), file: "America__Sao_Paulo".into() },
        Src::Synth(tzsyn::Synth { version: 1, types: vec![(3600, false), (7200, true)], transitions: vec![(0, 1), (1000, 0), (50_000_000, 1)], v1_populated: false, footer: None, indicators: true, leaps: 0 }),
        Src::Synth(tzsyn::Synth { version: 3, types: vec![(-10_800, false), (-7200, true)], transitions: vec![(100, 1), (20_000_000, 0)], v1_populated: true, footer: Some("<-03>3<-02>,M10.1.0/-1,M2.3.0/25".into()), indicators: false, leaps: 2 }),
    ];
    let bases: Vec<Src> = bases.into_iter().filter(|b| c18::bytes_of(b).is_ok()).collect();
    let bases = std::sync::Arc::new(bases);
    let b2 = bases.clone();
    env.run_enum::<Hostile, _>(bases.len() as u64, move |k| {
        let base = b2[k as usize].clone();
        let len = c18::bytes_of(&base).map(|b| b.len()).unwrap_or(0);
        let mut v: Vec<Case> = Vec::new();
        for header in 0..2u8 {
            for field in 0..6u8 {
                for value in [0u32, 1, 255, 65_535, 1 << 31, u32::MAX] {
                    v.push(Case { base: base.clone(), muts: vec![Mut::SetCount { header, field, value }], ts: vec![], resolve: field == 3 });
                }
                for delta in [-1i8, 1] {
                    v.push(Case { base: base.clone(), muts: vec![Mut::AdjCount { header, field, delta }], ts: vec![], resolve: false });
                }
            }
        }
        for header in 0..2u8 {
            for at in 0..20u8 {
                for value in [0u8, 1, b'1', b'2', b'3', b'4', 0xff] {
                    v.push(Case { base: base.clone(), muts: vec![Mut::SetHeaderByte { header, at, value }], ts: vec![], resolve: at == 4 });
                }
            }
        }
        let step = if t || len < 400 { 1 } else { (len / 400).max(1) };
        for at in (0..len).step_by(step) {
            let frac = ((at as u64 * 65_536 + len as u64 - 1) / len.max(1) as u64).min(65_535) as u16;
            v.push(Case { base: base.clone(), muts: vec![Mut::Truncate { frac }], ts: vec![], resolve: at % 97 == 0 });
        }
        for kx in 0..40u16 {
            for value in [255u8, 2, 5, 6] {
                v.push(Case { base: base.clone(), muts: vec![Mut::SetTypeIdx { k: kx, value }], ts: vec![], resolve: false });
            }
        }
        for f in [
            "M13.1.0", "M3.0.0", "M3.6.0", "M3.5.7", "J0", "J366", "365", "366", "J365", "0", "99999999999999999999", "M99999999999999999999.1.0", "J99999999999999999999",
        ] {
            for other in ["M10.5.0", "J100", "200"] {
                for (a, b) in [(f, other), (other, f)] {
                    v.push(Case { base: base.clone(), muts: vec![Mut::Footer { text: format!("STD-1DST,{},{}", a, b).into_bytes(), leading_nl: true, trailing_nl: true }], ts: vec![], resolve: true });
                }
            }
        }
        // a 2-, 3- and 4-byte character replacing / inserted before every character of valid footers
        for f in ["CET-1CEST,M3.5.0,M10.5.0/3", "<+0330>-3:30<+0430>,J79/24,J263/24", "EST5EDT,M3.2.0,M11.1.0", "<-03>3<-02>,M3.5.0/-2,M10.5.0/-1", "AEST-10AEDT,M10.1.0,M4.1.0/3", "IST-5:30", "WET0WEST,90/1,300/2"] {
            let cs: Vec<char> = f.chars().collect();
            for pos in 0..=cs.len() {
                for ch in ['é', '€', '😀'] {
                    for replace in [true, false] {
                        if replace && pos == cs.len() {
                            continue;
                        }
                        let mut m = cs.clone();
                        if replace {
                            m[pos] = ch;
                        } else {
                            m.insert(pos, ch);
                        }
                        let text: String = m.into_iter().collect();
                        v.push(Case { base: base.clone(), muts: vec![Mut::Footer { text: text.into_bytes(), leading_nl: true, trailing_nl: true }], ts: vec![], resolve: pos % 5 == 0 });
                    }
                }
            }
        }
        v.into_iter()
    });
    env.exhaustive_parts.push(format!("C19: {} base files x (12 header counts x 8 values, every byte of the two 20-byte header prefixes (magic, version, reserved) x 7 values, every truncation point (sampled above 400 bytes in quick), 40 transition-type bytes x 4 values, 13 hostile rule strings in both rule positions, a 2-/3-/4-byte character replacing or inserted before every character of 7 valid footers)", bases.len()));
    env.run_random::<Hostile>(if t { 5_000_000 } else { 600_000 });
    env.run_random::<Loose>(if t { 3_000_000 } else { 400_000 });
    env.run_random::<Raw>(if t { 1_000_000 } else { 150_000 });
    // committed fuzz corpus / crash inputs
    let mut raws = Vec::new();
    for dir in ["/verif/corpus/fuzz/tzif", "/verif/regressions/C19/fuzz"] {
        if let Ok(rd) = std::fs::read_dir(dir) {
            let mut files: Vec<_> = rd.filter_map(|e| e.ok()).map(|e| e.path()).collect();
            files.sort();
            for f in files {
                if let Ok(bytes) = std::fs::read(&f) {
                    raws.push(RawCase { bytes });
                }
            }
        }
    }
    if !raws.is_empty() {
        env.notes.push(format!("replayed {} committed fuzz corpus / crash inputs", raws.len()));
        env.run_list::<Raw>(raws);
    }
}
