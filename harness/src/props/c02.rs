//! C02 — weekday, day-of-year and week/quarter fields follow the calendar for every day.
use crate::engine::*;
use crate::gen;
use crate::model::{cal, fmt};
use crate::obs::*;
use crate::props::c01::DayCase;
use arbitrary::Unstructured;
use astrolabe::errors::AstrolabeError;
use astrolabe::{Date, DateTime, DateUtilities};
use serde::{Deserialize, Serialize};

const WD_ABBR: [&str; 7] = ["Sun", "Mon", "Tue", "Wed", "Thu", "Fri", "Sat"];
const WD_NARROW: [&str; 7] = ["S", "M", "T", "W", "T", "F", "S"];
const WD_SHORT: [&str; 7] = ["Su", "Mo", "Tu", "We", "Th", "Fr", "Sa"];

pub const PATTERN: &str = "w|ww|q|e|ee|eee|eeee|eeeee|eeeeee|eeeeeee|eeeeeeee|D";
const FIELD_NAMES: [&str; 12] = ["w", "ww", "q", "e", "ee", "eee", "eeee", "eeeee", "eeeeee", "eeeeeee", "eeeeeeee", "D"];

/// the twelve fields of PATTERN as the documentation's table prescribes them
pub fn expected_fields(day: i64) -> [String; 12] {
    let (_, m, _) = cal::ymd_from_days(day);
    let wk = cal::iso_week(day);
    let wd = cal::weekday(day) as usize; // 0 = Sunday
    let monday_first = (wd + 6) % 7 + 1; // Monday = 1 … Sunday = 7
    [
        format!("{}", wk),
        format!("{:02}", wk),
        format!("{}", cal::quarter(m)),
        format!("{}", wd + 1),
        format!("{:02}", wd + 1),
        WD_ABBR[wd].to_string(),
        cal::WDAY_WIDE[wd].to_string(),
        WD_NARROW[wd].to_string(),
        WD_SHORT[wd].to_string(),
        format!("{}", monday_first),
        format!("{:02}", monday_first),
        format!("{}", cal::day_of_year(day)),
    ]
}

fn mix64(mut x: u64) -> u64 {
    x = x.wrapping_add(0x9E37_79B9_7F4A_7C15);
    x = (x ^ (x >> 30)).wrapping_mul(0xBF58_476D_1CE4_E5B9);
    x = (x ^ (x >> 27)).wrapping_mul(0x94D0_49BB_1331_11EB);
    x ^ (x >> 31)
}

/// two to five date fields (the first one a field of this property) with or without text between
/// them, chosen from the bits of `h`
fn composed_pattern(mut h: u64) -> Vec<fmt::Tok> {
    const OWN: &[(char, &[usize])] = &[('w', &[1, 2]), ('e', &[1, 2, 3, 4, 5, 6, 7, 8]), ('q', &[1, 2, 3, 4, 5]), ('D', &[1, 2, 3])];
    const ALL: &[(char, &[usize])] = &[
        ('w', &[1, 2]),
        ('e', &[1, 2, 3, 4, 5, 6, 7, 8]),
        ('q', &[1, 2, 3, 4, 5]),
        ('D', &[1, 2, 3]),
        ('y', &[1, 2, 3, 4, 5]),
        ('M', &[1, 2, 3, 4, 5]),
        ('d', &[1, 2]),
        ('G', &[1, 4, 5]),
        ('w', &[1, 2]),
        ('e', &[1, 2, 7, 8]),
    ];
    const SEPS: &[&str] = &["", "-", " ", "", "-", "/", ".", ", ", ":", "_"];
    let mut take = |n: u64| {
        let r = h % n;
        h = mix64(h);
        r as usize
    };
    let n = 2 + take(4);
    let own_at = take(n as u64);
    let mut toks: Vec<fmt::Tok> = Vec::new();
    let mut last_sym = '\0';
    for i in 0..n {
        let tab = if i == own_at { OWN } else { ALL };
        let (sym, widths) = tab[take(tab.len() as u64)];
        let width = widths[take(widths.len() as u64)];
        if i > 0 {
            let k = take(SEPS.len() as u64 + 2);
            if k >= SEPS.len() {
                toks.push(fmt::Tok::Quoted(["W", "T", " week ", "-"][take(4)].to_string()));
            } else if SEPS[k].is_empty() {
                if sym == last_sym {
                    toks.push(fmt::Tok::Lit("-".to_string()));
                }
            } else {
                toks.push(fmt::Tok::Lit(SEPS[k].to_string()));
            }
        }
        toks.push(fmt::Tok::Field { sym, width });
        last_sym = sym;
    }
    toks
}

fn classify(day: i64, cx: &mut Cx) {
    let (y, m, d) = cal::ymd_from_days(day);
    if day < 0 {
        cx.nt("bc");
    }
    if (m == 12 && d >= 25) || (m == 1 && d <= 7) {
        cx.nt("year_end_fortnight");
    }
    let dec28 = cal::days_from_ymd(y, 12, 28).clamp(cal::MIN_DAY, cal::MAX_DAY);
    if cal::iso_week(dec28) == 53 {
        cx.label("year_with_53_weeks");
    }
    if cal::is_leap(y) && m >= 3 {
        cx.label("after_leap_day");
    }
}

pub struct DayFields;
impl Prop for DayFields {
    type Case = DayCase;
    const NAME: &'static str = "C02.day_fields";
    const BYTES: usize = 24;
    fn gen(u: &mut Unstructured<'_>) -> arbitrary::Result<DayCase> {
        Ok(DayCase { day: gen::day(u)? })
    }
    fn check(c: &DayCase, cx: &mut Cx) -> Verdict {
        let day = c.day;
        if !(cal::MIN_DAY..=cal::MAX_DAY).contains(&day) {
            return Verdict::Skip("day outside i32");
        }
        classify(day, cx);
        let wd = cal::weekday(day);
        if wd != cal::weekday_b(day) || cal::iso_week(day) != cal::iso_week_b(day) {
            return fail("harness.oracle_inconsistent", "model formulations agree", format!("day {}", day));
        }
        let doy = cal::day_of_year(day);
        let r = catch(|| {
            let d = mk_date(day);
            let dt = DateTime::from_timestamp((day - cal::DAYS_TO_1970) * 86_400 + 86_399);
            (d.weekday(), d.day_of_year(), dt.weekday(), dt.day_of_year(), d.format(PATTERN), dt.format(PATTERN))
        });
        let (w1, y1, w2, y2, f1, f2) = match r {
            Ok(v) => v,
            Err(p) => return fail("c02.panic", "getters/format return", p.short()),
        };
        let sig_era = if day < 0 { "_bc" } else { "" };
        if w1 as u32 != wd || w2 as u32 != wd {
            return fail(&format!("c02.weekday{}", sig_era), format!("weekday of {} = {}", fmt_day(day), wd), format!("Date {} / DateTime {}", w1, w2));
        }
        if y1 != doy || y2 != doy {
            return fail("c02.day_of_year", format!("day_of_year of {} = {}", fmt_day(day), doy), format!("Date {} / DateTime {}", y1, y2));
        }
        let want = expected_fields(day);
        for (api, f) in [("Date", &f1), ("DateTime", &f2)] {
            let got: Vec<&str> = f.split('|').collect();
            if got.len() != 12 {
                return fail("c02.format_shape", format!("12 fields for pattern {}", PATTERN), f.clone());
            }
            for i in 0..12 {
                if got[i] != want[i] {
                    let kind = match i {
                        0 | 1 => "iso_week",
                        2 => "quarter",
                        11 => "doy_format",
                        _ => "weekday_format",
                    };
                    return fail(
                        &format!("c02.{}{}", kind, sig_era),
                        format!("{}::format(\"{}\") of {} = {:?}", api, FIELD_NAMES[i], fmt_day(day), want[i]),
                        format!("{:?}", got[i]),
                    );
                }
            }
        }
        // the same fields inside composed patterns: next to each other and next to the other date
        // fields, in any order, with and without text between them (what a field prints must not
        // depend on which fields stand around it)
        for salt in 0..3u64 {
            let toks = composed_pattern(mix64(day as u64 ^ (salt.wrapping_mul(0x9E37_79B9)) << 1));
            let pattern = fmt::pattern_of(&toks);
            let want = match fmt::render(&toks, &fmt::local_fields(fmt::Kind::Date, day, 0, 0), 0) {
                Ok(w) => w,
                Err(_) => continue,
            };
            cx.label("composed_pattern");
            if toks.windows(2).any(|w| matches!(w, [fmt::Tok::Field { .. }, fmt::Tok::Field { .. }])) {
                cx.label("composed_pattern_with_adjacent_fields");
            }
            let r = catch(|| (mk_date(day).format(&pattern), DateTime::from_timestamp((day - cal::DAYS_TO_1970) * 86_400 + 86_399).format(&pattern)));
            let (g1, g2) = match r {
                Ok(v) => v,
                Err(p) => return fail("c02.panic", "format returns", p.short()),
            };
            for (api, got) in [("Date", &g1), ("DateTime", &g2)] {
                if *got != want {
                    return fail(
                        &format!("c02.field_depends_on_its_neighbours{}", sig_era),
                        format!("{}::format({:?}) of {} = {:?}", api, pattern, fmt_day(day), want),
                        format!("{:?}", got),
                    );
                }
            }
        }
        // the same fields asked for neighbouring days first, on the same thread: the answer for a
        // day must not depend on what was asked before it (caches, memo tables, reused buffers)
        let deltas: [i64; 8] = [1, -1, 6, -6, 7, -7, 13, -13];
        for k in 0..2 {
            let delta = deltas[((day as u64 ^ (day as u64 >> 7)).wrapping_add(k * 3) % 8) as usize];
            let other = day + delta;
            if !(cal::MIN_DAY..=cal::MAX_DAY).contains(&other) {
                continue;
            }
            let r = catch(|| (mk_date(other).format(PATTERN), mk_date(day).format(PATTERN), mk_date(other).format(PATTERN)));
            let (fo, fd, fo2) = match r {
                Ok(v) => v,
                Err(p) => return fail("c02.panic", "format returns", p.short()),
            };
            for (dd, f) in [(other, &fo), (day, &fd), (other, &fo2)] {
                let want = expected_fields(dd).join("|");
                if *f != want {
                    return fail(
                        &format!("c02.depends_on_previous_call{}", sig_era),
                        format!("format(\"{}\") of {} asked in the sequence {} , {} , {} = {:?}", PATTERN, fmt_day(dd), fmt_day(other), fmt_day(day), fmt_day(other), want),
                        format!("{:?}", f),
                    );
                }
            }
        }
        Verdict::Pass
    }
}

#[derive(Debug, Clone, Hash, Serialize, Deserialize)]
pub struct DoyCase {
    pub day: i64,
    pub n: u32,
}

pub struct SetDoy;
impl Prop for SetDoy {
    type Case = DoyCase;
    const NAME: &'static str = "C02.set_day_of_year";
    const BYTES: usize = 32;
    fn gen(u: &mut Unstructured<'_>) -> arbitrary::Result<DoyCase> {
        let day = gen::day(u)?;
        let k = u.below(6)?;
        let n = match k {
            0 | 1 => *u.choose(&[0u32, 1, 59, 60, 61, 365, 366, 367, 173, 174, 175, 192, 193, 194])?,
            2 => u.int_in_range(0..=367u32)?,
            3 => *u.choose(&[u32::MAX, 1 << 31, 368, 1000])?,
            _ => u.int_in_range(0..=400u32)?,
        };
        Ok(DoyCase { day, n })
    }
    fn check(c: &DoyCase, cx: &mut Cx) -> Verdict {
        if !(cal::MIN_DAY..=cal::MAX_DAY).contains(&c.day) {
            return Verdict::Skip("day outside i32");
        }
        let (y, _, _) = cal::ymd_from_days(c.day);
        let len = cal::year_len(y);
        let target = cal::days_from_ymd(y, 1, 1) + c.n as i64 - 1;
        let valid = c.n >= 1 && c.n <= len && (cal::MIN_DAY..=cal::MAX_DAY).contains(&target);
        if [0, 1, 59, 60, 61, 365, 366, 367].contains(&c.n) {
            cx.nt("boundary_n");
        }
        if y < 0 {
            cx.nt("bc_year");
        }
        if y == cal::MIN_YMD.0 || y == cal::MAX_YMD.0 {
            cx.nt("range_end_year");
        }
        if cal::is_leap(y) {
            cx.label("leap_year");
        }
        let r = catch(|| {
            (
                mk_date(c.day).set_day_of_year(c.n).map(|d| rd_date(&d)),
                DateTime::from_timestamp((c.day - cal::DAYS_TO_1970) * 86_400 + 3_723).set_day_of_year(c.n).map(|d| d.timestamp()),
            )
        });
        let (r1, r2) = match r {
            Ok(v) => v,
            Err(p) => return fail("c02.set_doy_panic", "set_day_of_year returns a Result", p.short()),
        };
        let what = format!("set_day_of_year({}) in year {} ({} days)", c.n, y, len);
        let r2 = r2.map(|ts| {
            if ts.rem_euclid(86_400) != 3_723 {
                i64::MIN
            } else {
                ts.div_euclid(86_400) + cal::DAYS_TO_1970
            }
        });
        // DateTime carrying an offset: the N-th day of the *local* year, local time of day kept
        {
            let off = ((c.day.rem_euclid(172_799)) as i32 - 86_399) / 7 * 7 % 86_400; // a deterministic offset per case
            let utc = c.day as i128 * 86_400_000_000_000 + (c.n as i128 % 86_400) * 1_000_000_000;
            if c.day > cal::MIN_DAY + 3 && c.day < cal::MAX_DAY - 3 {
                let local = utc + off as i128 * 1_000_000_000;
                let want_local = crate::props::c09::model(local, &crate::props::c09::Op::Set { field: 3, v: c.n as i64 });
                let in_margin = want_local.map(|w| {
                    let d = w.div_euclid(86_400_000_000_000) as i64;
                    d >= cal::MIN_DAY + 2 && d <= cal::MAX_DAY - 2
                });
                if in_margin != Some(false) {
                    let r = catch(|| {
                        let (d0, local) = mk_dt_off_pin(utc, off);
                        (d0.set_day_of_year(c.n).map(|d| rd_dt(&d)), local)
                    });
                    let r = r.map(|(v, local)| {
                        if local {
                            cx.nt("offset_carried_as_Offset::Local");
                        }
                        v
                    });
                    if crate::model::tl::fields(local).year != crate::model::tl::fields(utc).year {
                        cx.nt("local_year!=utc_year");
                    }
                    match (want_local, r) {
                        (_, Err(p)) => return fail("c02.set_doy_panic", "set_day_of_year on a DateTime with offset returns", p.short()),
                        (Some(w), Ok(Ok(i))) => {
                            if i != w - off as i128 * 1_000_000_000 {
                                return fail(
                                    "c02.set_doy_offset_wrong_day",
                                    format!("set_day_of_year({}) on {} [offset {}] = local {}", c.n, fmt_instant(utc), off, fmt_instant(w)),
                                    format!("local {}", fmt_instant(i + off as i128 * 1_000_000_000)),
                                );
                            }
                        }
                        (Some(w), Ok(Err(e))) => return fail("c02.set_doy_offset_rejects_valid", format!("set_day_of_year({}) on {} [offset {}] = local {}", c.n, fmt_instant(utc), off, fmt_instant(w)), format!("Err({})", e)),
                        (None, Ok(Ok(i))) => return fail("c02.set_doy_offset_accepts_invalid", format!("set_day_of_year({}) on {} [offset {}] refused (local year {} has no such day)", c.n, fmt_instant(utc), off, crate::model::tl::fields(local).year), format!("Ok({})", fmt_instant(i))),
                        (None, Ok(Err(_))) => {}
                    }
                }
            }
        }
        for (api, r) in [("Date", r1), ("DateTime", r2)] {
            match r {
                Ok(d) => {
                    if !valid {
                        return fail("c02.set_doy_accepts_invalid", format!("{} {} = Err(OutOfRange)", api, what), format!("Ok({})", d));
                    }
                    if d != target {
                        return fail("c02.set_doy_wrong_day", format!("{} {} = {}", api, what, fmt_day(target)), if d == i64::MIN { "time of day changed".to_string() } else { fmt_day(d) });
                    }
                }
                Err(e) => {
                    if valid {
                        return fail("c02.set_doy_rejects_valid", format!("{} {} = Ok({})", api, what, fmt_day(target)), format!("Err({})", e));
                    }
                    if !matches!(e, AstrolabeError::OutOfRange(_)) {
                        return fail("c02.set_doy_wrong_error", "Err(OutOfRange)", format!("{:?}", e));
                    }
                }
            }
        }
        Verdict::Pass
    }
}

/// getters for a whole window, inline
fn getters_window(env: &mut Env, lo: i64, hi: i64) {
    const CH: i64 = 1 << 16;
    let n_chunks = ((hi - lo) / CH + 1) as u64;
    env.run_fast::<DayFields>(n_chunks, move |c, fs| {
        let start = lo + c as i64 * CH;
        let end = (start + CH - 1).min(hi);
        let mut bad = Vec::new();
        let (mut y, _, _) = cal::ymd_from_days(start);
        let mut jan1 = cal::days_from_ymd(y, 1, 1);
        let mut len = cal::year_len(y) as i64;
        for day in start..=end {
            if day - jan1 >= len {
                y = if y == -1 { 1 } else { y + 1 };
                jan1 += len;
                len = cal::year_len(y) as i64;
            }
            fs.evaluations += 1;
            let doy = (day - jan1 + 1) as u32;
            if day < 0 || doy <= 7 || doy as i64 > len - 7 {
                fs.nontrivial += 1;
            }
            let wd = (day + 1).rem_euclid(7) as u8;
            let ok = catch(|| {
                let d = Date::from_timestamp((day - cal::DAYS_TO_1970) * 86_400);
                d.weekday() == wd && d.day_of_year() == doy
            })
            .unwrap_or(false);
            if !ok && bad.len() < 32 {
                bad.push(DayCase { day });
            }
        }
        bad
    });
}

/// weekday() / day_of_year() of every `stride`-th day of the whole range (phase from the seed)
fn getters_stride(env: &mut Env, stride: i64) {
    let phase = (env.seed % stride as u64) as i64;
    const CH: i64 = 1 << 16;
    let n_chunks = ((cal::MAX_DAY - cal::MIN_DAY) / stride / CH + 1) as u64;
    env.run_fast::<DayFields>(n_chunks, move |c, fs| {
        let mut bad = Vec::new();
        for k in 0..CH {
            let day = cal::MIN_DAY + phase + (c as i64 * CH + k) * stride;
            if day > cal::MAX_DAY {
                break;
            }
            fs.evaluations += 1;
            let (y, _, _) = cal::ymd_from_days(day);
            let doy = (day - cal::days_from_ymd(y, 1, 1) + 1) as u32;
            let wd = (day + 1).rem_euclid(7) as u8;
            let ok = catch(|| {
                let d = Date::from_timestamp((day - cal::DAYS_TO_1970) * 86_400);
                d.weekday() == wd && d.day_of_year() == doy
            })
            .unwrap_or(false);
            if !ok && bad.len() < 32 {
                bad.push(DayCase { day });
            }
        }
        bad
    });
}

/// formatted fields for a list of (start, len) day runs, inline string comparison
fn format_runs(env: &mut Env, runs: std::sync::Arc<Vec<(i64, i64)>>) {
    const CH: usize = 256;
    let n_chunks = ((runs.len() + CH - 1) / CH) as u64;
    env.run_fast::<DayFields>(n_chunks, move |c, fs| {
        let mut bad = Vec::new();
        let lo = c as usize * CH;
        let hi = (lo + CH).min(runs.len());
        for &(s, l) in &runs[lo..hi] {
            for day in s..s + l {
                if !(cal::MIN_DAY..=cal::MAX_DAY).contains(&day) {
                    continue;
                }
                fs.evaluations += 1;
                fs.nontrivial += 1;
                let want = expected_fields(day).join("|");
                let ok = catch(|| Date::from_timestamp((day - cal::DAYS_TO_1970) * 86_400).format(PATTERN) == want).unwrap_or(false);
                if !ok && bad.len() < 32 {
                    bad.push(DayCase { day });
                }
            }
        }
        bad
    });
}

fn set_doy_years(env: &mut Env, years: std::sync::Arc<Vec<i64>>) {
    const CH: usize = 64;
    let n_chunks = ((years.len() + CH - 1) / CH) as u64;
    env.run_fast::<SetDoy>(n_chunks, move |c, fs| {
        let mut bad = Vec::new();
        let lo = c as usize * CH;
        let hi = (lo + CH).min(years.len());
        for &y in &years[lo..hi] {
            // a receiver day inside year y
            let recv = if y == cal::MIN_YMD.0 { cal::MIN_DAY + 5 } else { cal::days_from_ymd(y, 1, 1).max(cal::MIN_DAY) };
            let jan1 = cal::days_from_ymd(y, 1, 1);
            let len = cal::year_len(y);
            let date = Date::from_timestamp((recv - cal::DAYS_TO_1970) * 86_400);
            for n in 0..=367u32 {
                fs.evaluations += 1;
                let target = jan1 + n as i64 - 1;
                let valid = n >= 1 && n <= len && (cal::MIN_DAY..=cal::MAX_DAY).contains(&target);
                if y < 0 || n <= 1 || (59..=61).contains(&n) || n >= 365 {
                    fs.nontrivial += 1;
                }
                let ok = catch(|| match date.set_day_of_year(n) {
                    Ok(d) => valid && d.timestamp() == (target - cal::DAYS_TO_1970) * 86_400,
                    Err(AstrolabeError::OutOfRange(_)) => !valid,
                    Err(_) => false,
                })
                .unwrap_or(false);
                if !ok && bad.len() < 32 {
                    bad.push(DoyCase { day: recv, n });
                }
            }
        }
        bad
    });
}

pub fn run(env: &mut Env) {
    let t = env.thorough();
    if t {
        getters_window(env, cal::MIN_DAY, cal::MAX_DAY);
        env.exhaustive_parts.push("C02: weekday() and day_of_year() for all 2^32 day numbers".into());
        // Dec 25 .. Jan 7 of every year
        let mut runs: Vec<(i64, i64)> = Vec::with_capacity(12_000_000);
        for y in cal::MIN_YMD.0..=cal::MAX_YMD.0 {
            if y == 0 {
                continue;
            }
            runs.push((cal::days_from_ymd(y, 12, 25), 14));
        }
        // four 400-year cycles around the era and around 1970, the range ends
        runs.push((-4 * gen::CYCLE, 8 * gen::CYCLE));
        runs.push((cal::DAYS_TO_1970 - gen::CYCLE, 2 * gen::CYCLE));
        runs.push((cal::MIN_DAY, 800));
        runs.push((cal::MAX_DAY - 799, 800));
        // split the long runs so chunks stay balanced
        let mut split: Vec<(i64, i64)> = Vec::with_capacity(runs.len() + 2000);
        for (s, l) in runs {
            let mut s0 = s;
            let mut left = l;
            while left > 2000 {
                split.push((s0, 2000));
                s0 += 2000;
                left -= 2000;
            }
            split.push((s0, left));
        }
        format_runs(env, std::sync::Arc::new(split));
        env.exhaustive_parts.push("C02: w/q/e/D format fields for Dec 25..Jan 7 of every year, 8 cycles of 400 years around the era, 2 around 1970 and 800 days at each range end".into());
        let all: Vec<i64> = (cal::MIN_YMD.0..=cal::MAX_YMD.0).filter(|y| *y != 0).collect();
        set_doy_years(env, std::sync::Arc::new(all));
        env.exhaustive_parts.push("C02: set_day_of_year for every year x N in 0..=367".into());
        env.run_random::<DayFields>(10_000_000);
        env.run_random::<SetDoy>(5_000_000);
    } else {
        for (lo, hi) in [
            (cal::MIN_DAY, cal::MIN_DAY + 300_000),
            (cal::MAX_DAY - 300_000, cal::MAX_DAY),
            (-3 * gen::CYCLE, 3 * gen::CYCLE),
            (cal::DAYS_TO_1970 - gen::CYCLE, cal::DAYS_TO_1970 + gen::CYCLE),
        ] {
            getters_window(env, lo, hi);
        }
        let mut runs: Vec<(i64, i64)> = Vec::new();
        for y in (-1300i64..=2600).chain(-5_879_610..=-5_879_400).chain(5_879_400..=5_879_610) {
            if y != 0 {
                runs.push((cal::days_from_ymd(y, 12, 25), 14));
            }
        }
        runs.push((-400 * 366, 800 * 366));
        runs.push((cal::MIN_DAY, 400));
        runs.push((cal::MAX_DAY - 399, 400));
        let mut split: Vec<(i64, i64)> = Vec::new();
        for (s, l) in runs {
            let mut s0 = s;
            let mut left = l;
            while left > 2000 {
                split.push((s0, 2000));
                s0 += 2000;
                left -= 2000;
            }
            split.push((s0, left));
        }
        // sweeps over the whole domain: every 1009th day, and the year-end fortnight of every 23rd
        // year (phase from the seed), for the formatted fields; every 5th day for the getters
        let ph = env.seed as i64;
        let mut d = cal::MIN_DAY + ph.rem_euclid(1009);
        while d <= cal::MAX_DAY {
            split.push((d, 1));
            d += 1009;
        }
        let mut y = cal::MIN_YMD.0 + 1 + ph.rem_euclid(23);
        while y < cal::MAX_YMD.0 {
            if y != 0 {
                split.push((cal::days_from_ymd(y, 12, 25), 14));
            }
            y += 23;
        }
        format_runs(env, std::sync::Arc::new(split));
        getters_stride(env, 5);
        env.exhaustive_parts.push("C02 (quick): weekday()/day_of_year() of every 5th day of the whole range; w/q/e/D fields of every 1009th day and of Dec 25..Jan 7 of every 23rd year (phases from the seed)".into());
        let years: Vec<i64> = (-1300i64..=2600).chain(-5_879_611..=-5_879_500).chain(5_879_500..=5_879_611).filter(|y| *y != 0).collect();
        set_doy_years(env, std::sync::Arc::new(years));
        env.run_random::<DayFields>(500_000);
        env.run_random::<SetDoy>(500_000);
    }
}
