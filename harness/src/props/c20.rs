//! C20 — default text forms (Display, FromStr, serde) name the value they came from.
use crate::engine::*;
use crate::gen::{self, Inst};
use crate::model::fmt::{self, Kind};
use crate::model::{cal, tl};
use crate::obs::*;
use crate::props::c13;
use arbitrary::Unstructured;
use astrolabe::{Date, DateTime, Offset, OffsetUtilities, Time};
use serde::{Deserialize, Serialize};

#[derive(Debug, Clone, Hash, Serialize, Deserialize)]
pub struct Case {
    pub kind: Kind,
    pub v: Inst,
    pub off: i32,
    /// != 0: Time / DateTime values carry `Offset::Local` under an injected zone whose offset at this
    /// pinned Unix time is `off` (Display is judged)
    #[serde(default)]
    pub local_now: i64,
}

/// A `fmt::Write` sink that itself prints a Date, a Time and a DateTime every time it is written
/// to: `Display` is re-entered while an outer `Display` call of the same thread is still running
/// (a writer that timestamps its output does exactly that).
struct ReentrantSink {
    out: String,
    inner: Vec<String>,
}

impl std::fmt::Write for ReentrantSink {
    fn write_str(&mut self, s: &str) -> std::fmt::Result {
        self.inner.push(format!("{} {} {}", mk_date(738_000), mk_time(45_296_000_000_000), mk_dt(738_000 * tl::DAY_NS + 45_296_000_000_000)));
        self.out.push_str(s);
        Ok(())
    }
}

fn pat(kind: Kind, sep: char) -> String {
    match kind {
        Kind::Date => format!("yyyy{0}MM{0}dd", sep),
        Kind::Time => "HH:mm:ss".to_string(),
        Kind::DateTime => format!("yyyy{0}MM{0}dd HH:mm:ss", sep),
    }
}

/// a pattern of the same length as `p` that a cheap fingerprint cannot tell from it
fn lookalike(p: &str, h: u64) -> Option<String> {
    let b = p.as_bytes();
    if !p.is_ascii() || b.len() < 2 {
        return None;
    }
    let ok = |c: i32| (0x20..0x7f).contains(&c) && c != '\'' as i32;
    let n = b.len();
    let kind = h % 6;
    let start = (h / 6) as usize % (n - 1);
    for j in 0..n - 1 {
        let i = (start + j) % (n - 1);
        let (x, y) = (b[i] as i32, b[i + 1] as i32);
        let cand: Option<(i32, i32)> = match kind {
            // x*m + y is kept for m = 31 and m = 33
            0 | 1 => {
                let m = if kind == 0 { 31 } else { 33 };
                if ok(x + 1) && ok(y - m) {
                    Some((x + 1, y - m))
                } else if ok(x - 1) && ok(y + m) {
                    Some((x - 1, y + m))
                } else {
                    None
                }
            }
            // the sum (and the multiset) of the bytes is kept
            2 => if x != y { Some((y, x)) } else { None },
            // the sum is kept
            3 => if ok(x + 1) && ok(y - 1) { Some((x + 1, y - 1)) } else { None },
            // same prefix, different last character / same suffix, different first character
            _ => None,
        };
        if let Some((x2, y2)) = cand {
            let mut v = b.to_vec();
            v[i] = x2 as u8;
            v[i + 1] = y2 as u8;
            return String::from_utf8(v).ok();
        }
        if kind >= 4 {
            break;
        }
    }
    let mut v = b.to_vec();
    let at = if kind == 4 { n - 1 } else { 0 };
    v[at] = if v[at] == b'd' { b'e' } else { b'd' };
    String::from_utf8(v).ok()
}

pub struct TextForms;
impl Prop for TextForms {
    type Case = Case;
    const NAME: &'static str = "C20.text_forms";
    const BYTES: usize = 64;
    fn gen(u: &mut Unstructured<'_>) -> arbitrary::Result<Case> {
        let kind = *u.choose(&[Kind::Date, Kind::Time, Kind::DateTime, Kind::DateTime])?;
        Ok(match kind {
            Kind::Date => Case { kind, v: Inst { day: gen::day(u)?, ns: 0 }, off: 0, local_now: 0 },
            Kind::Time => Case { kind, v: Inst { day: 0, ns: gen::day_ns(u)? }, off: gen::offset(u)?, local_now: if u.coin(1, 6)? { u.range_i64(-1_900_000_000, 2_100_000_000)? } else { 0 } },
            Kind::DateTime => {
                if u.coin(3, 4)? {
                    Case { kind, v: Inst::from_i(gen::instant_y1_9999(u)?), off: gen::offset_minutes(u)?, local_now: if u.coin(1, 6)? { u.range_i64(-1_900_000_000, 2_100_000_000)? } else { 0 } }
                } else {
                    Case { kind, v: gen::inst(u, 1)?, off: gen::offset(u)?, local_now: 0 }
                }
            }
        })
    }
    fn check(c: &Case, cx: &mut Cx) -> Verdict {
        if !c.v.valid() || c.off.unsigned_abs() > 86_399 || (c.kind == Kind::Date && c.off != 0) {
            return Verdict::Skip("malformed case");
        }
        if c.kind == Kind::DateTime && (c.v.day < cal::MIN_DAY + 1 || c.v.day > cal::MAX_DAY - 1) {
            return Verdict::Skip("on an outermost day of the range");
        }
        let f = fmt::local_fields(c.kind, c.v.day, c.v.ns, c.off);
        if f.year < 0 || f.year > 9999 {
            cx.nt("negative_or_5+_digit_year");
        }
        if c.off != 0 {
            cx.nt("non_zero_offset");
        }
        if f.day_ns < 1_000_000_000 || f.day_ns >= 86_399_000_000_000 {
            cx.nt("within_a_second_of_midnight");
        }
        cx.label(match c.kind {
            Kind::Date => "date",
            Kind::Time => "time",
            Kind::DateTime => "datetime",
        });
        // The text forms go through format/parse with fixed patterns. What they return may not depend
        // on what was asked before: in one case out of three the other two types are first formatted
        // and parsed with this type's Display / FromStr patterns (and serialised), before every step.
        let interfere = (c.v.ns as u64 ^ (c.v.day as u64).wrapping_mul(3) ^ c.off as u64) % 3 == 0;
        if interfere {
            cx.label("other_types_used_with_the_same_patterns_first");
        }
        let step = std::cell::Cell::new(0u64);
        let prelude = || {
            if !interfere {
                return;
            }
            // one pattern of the text forms and one other type per step, used as the *last* calls
            // before the step (a one-entry memo only remembers the last call)
            const PATTERNS: [&str; 9] = [
                "yyyy/MM/dd", "HH:mm:ss", "yyyy/MM/dd HH:mm:ss", "yyyy-MM-dd", "yyyy-MM-ddTHH:mm:ssXXX", "yyyy-MM-ddTHH:mm:ss.nnXXX", "yyyy-MM-ddTHH:mm:ss.nnnXXX",
                "yyyy-MM-ddTHH:mm:ss.nnnnXXX", "yyyy-MM-ddTHH:mm:ss.nnnnnXXX",
            ];
            let h = (c.v.ns as u64 / 3) ^ (c.v.day as u64) ^ ((c.off as u64) << 7);
            let k = step.get();
            step.set(k + 1);
            let p0 = PATTERNS[((h / 3 + k) % PATTERNS.len() as u64) as usize];
            // every other step: a look-alike of that pattern instead (same length and the same
            // cheap fingerprint: multiplicative hashes with 31 / 33, byte sum, prefix, suffix),
            // used by any of the three types, this one included
            let alike = (h / 5 + k) % 2 == 1;
            let p_alike = if alike { lookalike(p0, h / 7 + k * 13) } else { None };
            let p: &str = p_alike.as_deref().unwrap_or(p0);
            let others: Vec<Kind> = [Kind::Date, Kind::Time, Kind::DateTime].into_iter().filter(|o| p_alike.is_some() || *o != c.kind).collect();
            let o = others[((h / 64 + k) % others.len() as u64) as usize];
            let parse_last = (h / 128 + k) % 2 == 0;
            let _ = catch(|| {
                let d = mk_date(c.v.day);
                let t = mk_time(c.v.ns as u64).set_offset(Offset::Fixed(if c.kind == Kind::Date { 3_600 } else { c.off }));
                let dt = mk_dt(c.v.i());
                if k == 0 {
                    // the other types' own text forms
                    match o {
                        Kind::Date => {
                            let _ = serde_json::to_string(&d);
                            let _ = d.to_string();
                        }
                        Kind::Time => {
                            let _ = serde_json::to_string(&t);
                            let _ = t.to_string();
                        }
                        Kind::DateTime => {
                            let _ = serde_json::to_string(&dt).ok().and_then(|j| serde_json::from_str::<DateTime>(&j).ok());
                            let _ = dt.to_string();
                        }
                    }
                }
                let fmt_with = |p: &str| match o {
                    Kind::Date => d.format(p),
                    Kind::Time => t.format(p),
                    Kind::DateTime => dt.format(p),
                };
                let parse_with = |x: &str, p: &str| match o {
                    Kind::Date => Date::parse(x, p).is_ok(),
                    Kind::Time => Time::parse(x, p).is_ok(),
                    Kind::DateTime => DateTime::parse(x, p).is_ok(),
                };
                let x = fmt_with(p);
                if parse_last {
                    let _ = parse_with(&x, p);
                } else {
                    let _ = parse_with(&x, p);
                    let _ = fmt_with(p);
                }
            });
        };
        // --- Display ---
        prelude();
        let want_display = fmt::render(&fmt::tokenize(c.kind, &pat(c.kind, '/')), &f, c.off).unwrap();
        let disp = match c.kind {
            Kind::Date => catch(|| mk_date(c.v.day).to_string()),
            Kind::Time => catch(|| mk_time(c.v.ns as u64).set_offset(Offset::Fixed(c.off)).to_string()),
            Kind::DateTime => catch(|| mk_dt_off_any(c.v.i(), c.off).to_string()),
        };
        match disp {
            Err(p) => return fail("c20.display_panic", "to_string returns", p.short()),
            Ok(s) => {
                if s != want_display {
                    return fail("c20.display", format!("{:?} {} [{}] to_string() = {:?}", c.kind, fmt_instant(c.v.i()), c.off, want_display), format!("{:?}", s));
                }
            }
        }
        // the same value carrying its offset as Offset::Local (zone offset `off` at the pinned clock,
        // another one at most other times) prints the same text
        if c.kind != Kind::Date && c.local_now != 0 && local_now_ok(c.local_now) && (c.kind == Kind::Time || (c.v.day > cal::MIN_DAY + 3 && c.v.day < cal::MAX_DAY - 3)) {
            cx.nt("offset_carried_as_Offset::Local");
            pin_local(c.off, c.local_now);
            let r = catch(|| match c.kind {
                Kind::Time => mk_time(c.v.ns as u64).set_offset(Offset::Local).to_string(),
                _ => mk_dt(c.v.i()).set_offset(Offset::Local).to_string(),
            });
            unpin_local();
            match r {
                Err(p) => return fail("c20.display_panic", "to_string of a value carrying Offset::Local returns", p.short()),
                Ok(s) => {
                    if s != want_display {
                        return fail("c20.display_local", format!("{:?} {} carrying Offset::Local (zone offset {} at the pinned clock {}) to_string() = {:?}", c.kind, fmt_instant(c.v.i()), c.off, c.local_now, want_display), format!("{:?}", s));
                    }
                }
            }
        }
        // Display into a sink that prints other values itself while it is being written to
        if interfere {
            cx.label("display_into_a_sink_that_displays_values_itself");
            let r = catch(|| {
                use std::fmt::Write;
                let mut sink = ReentrantSink { out: String::new(), inner: Vec::new() };
                let ok = match c.kind {
                    Kind::Date => write!(sink, "{}", mk_date(c.v.day)),
                    Kind::Time => write!(sink, "{}", mk_time(c.v.ns as u64).set_offset(Offset::Fixed(c.off))),
                    Kind::DateTime => write!(sink, "{}", mk_dt_off_any(c.v.i(), c.off)),
                };
                (ok.is_ok(), sink.out, sink.inner)
            });
            match r {
                Err(p) => return fail("c20.display_panic", "Display into a sink that displays other values while being written to returns", p.short()),
                Ok((ok, out, inner)) => {
                    let (y, m, d) = cal::ymd_from_days(738_000);
                    let nested = format!("{:04}/{:02}/{:02} 12:34:56 {:04}/{:02}/{:02} 12:34:56", y, m, d, y, m, d);
                    if !ok || out != want_display || inner.iter().any(|x| *x != nested) {
                        return fail("c20.display_reentrant", format!("Display into a re-entrant sink writes {:?} (and the nested values print {:?})", want_display, nested), format!("ok={} {:?} nested {:?}", ok, out, inner.first()));
                    }
                }
            }
        }
        // --- FromStr on model-generated text ---
        prelude();
        match c.kind {
            Kind::Date => {
                let text = fmt::render(&fmt::tokenize(Kind::Date, "yyyy-MM-dd"), &f, 0).unwrap();
                match catch(|| text.parse::<Date>().map(|d| rd_date(&d))) {
                    Err(p) => return fail("c20.from_str_panic", format!("{:?}.parse::<Date>() returns", text), p.short()),
                    Ok(Err(e)) => return fail("c20.date_from_str_rejects", format!("{:?}.parse::<Date>() is Ok", text), format!("Err({})", e)),
                    Ok(Ok(d)) => {
                        if d != c.v.day {
                            return fail("c20.date_from_str_wrong", format!("{:?}.parse::<Date>() = day {}", text, c.v.day), fmt_day(d));
                        }
                    }
                }
            }
            Kind::Time => {
                let text = fmt::render(&fmt::tokenize(Kind::Time, "HH:mm:ss"), &f, 0).unwrap();
                match catch(|| text.parse::<Time>().map(|t| (t.as_nanos(), t.get_offset()))) {
                    Err(p) => return fail("c20.from_str_panic", format!("{:?}.parse::<Time>() returns", text), p.short()),
                    Ok(Err(e)) => return fail("c20.time_from_str_rejects", format!("{:?}.parse::<Time>() is Ok", text), format!("Err({})", e)),
                    Ok(Ok((n, o))) => {
                        let want = (f.day_ns / 1_000_000_000 * 1_000_000_000) as u64;
                        if n != want || o != Offset::Fixed(0) {
                            return fail("c20.time_from_str_wrong", format!("{:?}.parse::<Time>() = {} ns at UTC", text, want), format!("{} ns {:?}", n, o));
                        }
                    }
                }
            }
            Kind::DateTime => {}
        }
        // --- serde through serde_json ---
        let in_serde_domain = match c.kind {
            Kind::DateTime => {
                let fu = tl::fields(c.v.i());
                (1..=9999).contains(&fu.year) && (1..=9999).contains(&f.year) && c.off % 60 == 0
            }
            _ => true,
        };
        if !in_serde_domain {
            cx.label("datetime_outside_rfc3339_domain_(serde_not_judged)");
            return Verdict::Pass;
        }
        cx.label("serde_roundtrip");
        prelude();
        match c.kind {
            Kind::Date => {
                let r = catch(|| {
                    let d = mk_date(c.v.day);
                    let js = serde_json::to_string(&d).map_err(|e| e.to_string())?;
                    let back: Date = serde_json::from_str(&js).map_err(|e| format!("{} for {}", e, js))?;
                    Ok::<_, String>((js, rd_date(&back)))
                });
                match r {
                    Err(p) => fail("c20.serde_panic", "serde round trip returns", p.short()),
                    Ok(Err(e)) => fail("c20.date_serde_rejects_own_output", format!("Date {} round trips through serde", fmt_day(c.v.day)), e),
                    Ok(Ok((js, d))) => {
                        let want = format!("\"{}\"", fmt::render(&fmt::tokenize(Kind::Date, "yyyy-MM-dd"), &f, 0).unwrap());
                        if js != want {
                            return fail("c20.date_serialize", format!("serialised Date = {}", want), js);
                        }
                        if d != c.v.day {
                            return fail("c20.date_serde_roundtrip", format!("same Date {}", fmt_day(c.v.day)), fmt_day(d));
                        }
                        Verdict::Pass
                    }
                }
            }
            Kind::Time => {
                let r = catch(|| {
                    let t = mk_time(c.v.ns as u64).set_offset(Offset::Fixed(c.off));
                    let js = serde_json::to_string(&t).map_err(|e| e.to_string())?;
                    let back: Time = serde_json::from_str(&js).map_err(|e| format!("{} for {}", e, js))?;
                    Ok::<_, String>((js, back.format("HH:mm:ss")))
                });
                match r {
                    Err(p) => fail("c20.serde_panic", "serde round trip returns", p.short()),
                    Ok(Err(e)) => fail("c20.time_serde_rejects_own_output", "Time round trips through serde", e),
                    Ok(Ok((js, shown))) => {
                        let want = fmt::render(&fmt::tokenize(Kind::Time, "HH:mm:ss"), &f, c.off).unwrap();
                        if js != format!("\"{}\"", want) {
                            return fail("c20.time_serialize", format!("serialised Time = \"{}\"", want), js);
                        }
                        if shown != want {
                            return fail("c20.time_serde_roundtrip", format!("deserialised Time shows {}", want), shown);
                        }
                        Verdict::Pass
                    }
                }
            }
            Kind::DateTime => {
                let r = catch(|| {
                    let d = mk_dt_off_any(c.v.i(), c.off);
                    let js = serde_json::to_string(&d).map_err(|e| e.to_string())?;
                    let back: DateTime = serde_json::from_str(&js).map_err(|e| format!("{} for {}", e, js))?;
                    Ok::<_, String>((js, rd_dt(&back), back.get_offset()))
                });
                match r {
                    Err(p) => fail("c20.serde_panic", "serde round trip returns", p.short()),
                    Ok(Err(e)) => fail("c20.datetime_serde_rejects_own_output", "DateTime round trips through serde", e),
                    Ok(Ok((js, i, o))) => {
                        let want = c.v.i() - c.v.i().rem_euclid(tl::NS);
                        if i != want || o != Offset::Fixed(c.off) {
                            return fail(
                                "c20.datetime_serde_roundtrip",
                                format!("{} round trips to {} [{}]", js, fmt_instant(want), c.off),
                                format!("{} {:?}", fmt_instant(i), o),
                            );
                        }
                        Verdict::Pass
                    }
                }
            }
        }
    }
}

#[derive(Debug, Clone, Hash, Serialize, Deserialize)]
pub struct BadCase {
    pub kind: Kind,
    pub text: String,
}

/// malformed strings: Err (or Ok), never a panic — through FromStr and serde_json
pub struct Malformed;
impl Prop for Malformed {
    type Case = BadCase;
    const NAME: &'static str = "C20.malformed";
    const BYTES: usize = 96;
    fn gen(u: &mut Unstructured<'_>) -> arbitrary::Result<BadCase> {
        let kind = *u.choose(&[Kind::Date, Kind::Time, Kind::DateTime])?;
        let base = match kind {
            Kind::Date => *u.choose(&["2022-05-02", "-0005-02-29", "12345-12-31", "0001-01-01"])?,
            Kind::Time => *u.choose(&["12:32:01", "00:00:00", "23:59:59"])?,
            Kind::DateTime => *u.choose(&["2022-05-02T15:30:20Z", "2022-05-02T15:30:20.123456789+05:30", "9999-12-31T23:59:59.9-23:59", "0001-01-01T00:00:00.000+00:00"])?,
        };
        let mut cs: Vec<char> = base.chars().collect();
        const HOSTILE: &[char] = &['0', '9', '-', '+', ':', '.', 'T', 'Z', 'a', ' ', 'é', '日', '😀', '\'', '"', '\\', '\u{0}'];
        for _ in 0..1 + u.below(3)? {
            let k = u.below(5)?;
            let pos = if cs.is_empty() { 0 } else { u.below(cs.len() as u64)? as usize };
            match k {
                0 if !cs.is_empty() => {
                    cs.remove(pos);
                }
                1 if u.ratio(1, 4)? => {
                    // the digit run at / after pos replaced by a number that equals it modulo 2^32 or
                    // 2^64 (a reader that narrows the parsed number would "recover" a valid field)
                    // or padded with zeros to a longer run
                    if let Some(st) = (pos..cs.len()).find(|&i| cs[i].is_ascii_digit()) {
                        let en = (st..cs.len()).find(|&i| !cs[i].is_ascii_digit()).unwrap_or(cs.len());
                        let run: String = cs[st..en].iter().collect();
                        let v: u128 = run.parse().unwrap_or(0);
                        let neg_year = st > 0 && cs[st - 1] == '-' && st == 1;
                        let k = 1 + u.below(1 << 31)? as u128;
                        let new = match u.below(5)? {
                            0 => format!("{}", v + (k << 32)),
                            1 => format!("{}", v + (k << 64)),
                            2 if neg_year || v > 0 => format!("{}", (k << 32) - v.min(1 << 31)),
                            3 => format!("{}{}", "0".repeat(1 + u.below(12)? as usize), run),
                            _ => format!("{}", v + (1u128 << 32)),
                        };
                        cs.splice(st..en, new.chars());
                    }
                }
                1 => cs.insert(pos, if u.ratio(1, 6)? { crate::props::c11::random_non_ascii(u)? } else { *u.choose(HOSTILE)? }),
                2 if !cs.is_empty() => cs[pos] = *u.choose(HOSTILE)?,
                3 => cs.truncate(pos),
                _ => {
                    if !cs.is_empty() {
                        let c = cs[pos];
                        cs.insert(pos, c);
                    }
                }
            }
        }
        Ok(BadCase { kind, text: cs.into_iter().collect() })
    }
    fn check(c: &BadCase, cx: &mut Cx) -> Verdict {
        if c.text.len() > 400 {
            return Verdict::Skip("malformed case");
        }
        if !c.text.is_ascii() {
            cx.nt("multi_byte_character");
        }
        if c.text.len() < 8 {
            cx.nt("truncated");
        }
        let js = serde_json::to_string(&c.text).unwrap();
        // what an accepted text names, read independently and leniently: sign, digit runs of any
        // length as big integers, the documented separators. None = not of that shape (whether
        // such a text may be accepted is not specified; it is only required not to panic).
        let named: Option<Vec<i128>> = {
            let t = c.text.as_str();
            let nums = |parts: Vec<&str>| -> Option<Vec<i128>> {
                parts.iter().map(|p| if !p.is_empty() && p.len() <= 36 && p.bytes().all(|b| b.is_ascii_digit()) { p.parse::<i128>().ok() } else { None }).collect()
            };
            match c.kind {
                Kind::Date => {
                    let (neg, body) = match t.strip_prefix('-') {
                        Some(r) => (true, r),
                        None => (false, t),
                    };
                    let parts: Vec<&str> = body.split('-').collect();
                    // MM and dd are two-digit fields (what follows them is ignored by the reader,
                    // which is not specified either way); the year takes every digit
                    if parts.len() == 3 && parts[1].len() == 2 && parts[2].len() == 2 {
                        nums(parts).map(|v| vec![if neg { -v[0] } else { v[0] }, v[1], v[2]])
                    } else {
                        None
                    }
                }
                Kind::Time => {
                    let parts: Vec<&str> = t.split(':').collect();
                    // compared as a total: the pattern reader carries minutes / seconds above 59
                    // into the next unit (12:92:01 is read as 13:32:01), which no property forbids
                    if parts.len() == 3 && parts.iter().all(|p| p.len() == 2) {
                        nums(parts).map(|v| vec![v[0] * 3600 + v[1] * 60 + v[2]])
                    } else {
                        None
                    }
                }
                Kind::DateTime => None,
            }
        };
        let r = catch(|| match c.kind {
            Kind::Date => {
                let a = c.text.parse::<Date>();
                let got = a.as_ref().ok().map(|d| {
                    let (y, m, dd) = d.as_ymd();
                    vec![y as i128, m as i128, dd as i128]
                });
                (a.is_ok(), serde_json::from_str::<Date>(&js).is_ok(), got)
            }
            Kind::Time => {
                let a = c.text.parse::<Time>();
                let got = a.as_ref().ok().map(|t| {
                    let (h, m, s) = t.as_hms();
                    vec![h as i128 * 3600 + m as i128 * 60 + s as i128]
                });
                (a.is_ok(), serde_json::from_str::<Time>(&js).is_ok(), got)
            }
            Kind::DateTime => {
                let a = c.text.parse::<DateTime>();
                let got = a.as_ref().ok().map(|d| vec![rd_dt(d)]);
                (a.is_ok(), serde_json::from_str::<DateTime>(&js).is_ok(), got)
            }
        });
        match r {
            Err(p) => fail(&format!("c20.malformed_panic:{}", p.key()), format!("{:?}: from_str / serde of {:?} return a Result", c.kind, c.text), p.short()),
            Ok((a, b, got)) => {
                if a != b {
                    return fail("c20.serde_differs_from_from_str", format!("serde and FromStr agree on {:?}", c.text), format!("from_str ok={} serde ok={}", a, b));
                }
                // an accepted text is read as the value it names, never as a different one
                if let Some(got) = got {
                    let want = if c.kind == Kind::DateTime {
                        match c13::read_shape(&c.text) {
                            Some(st)
                                if st.mo >= 1
                                    && st.mo <= 12
                                    && st.d >= 1
                                    && st.d <= cal::month_len(st.y as i64, st.mo)
                                    && st.y >= 1
                                    && st.h <= 23
                                    && st.mi <= 59
                                    && st.s <= 59
                                    && st.zone.map(|(_, zh, zm)| zh <= 23 && zm <= 59).unwrap_or(true) =>
                            {
                                let (i, round_up) = st.instant();
                                // digits beyond the ninth: truncation and rounding are both allowed (C13)
                                if round_up && got == vec![i + 1] {
                                    Some(vec![i + 1])
                                } else {
                                    Some(vec![i])
                                }
                            }
                            _ => None,
                        }
                    } else {
                        named.clone()
                    };
                    if let Some(want) = want {
                        cx.nt("accepted_text_of_the_documented_shape");
                        if want != got {
                            return fail(
                                "c20.accepted_text_read_as_a_different_value",
                                format!("{:?}::from_str({:?}) is an error or the value the text names {:?}", c.kind, c.text, want),
                                format!("Ok({:?})", got),
                            );
                        }
                    }
                }
                if a {
                    cx.label("mutant_still_accepted");
                } else {
                    cx.nt("rejected_with_error");
                }
                Verdict::Pass
            }
        }
    }
}

pub fn run(env: &mut Env) {
    let t = env.thorough();
    // every day of the years 0001..=9999: the Date and one DateTime of that day through Display,
    // FromStr and serde
    let first = cal::days_from_ymd(1, 1, 2);
    let last = cal::days_from_ymd(9999, 12, 30);
    const CH: i64 = 4096;
    let n_chunks = ((last - first) / CH + 1) as u64;
    let seed = env.seed;
    env.run_enum::<TextForms, _>(n_chunks, move |c| {
        let lo = first + c as i64 * CH;
        (lo..(lo + CH).min(last + 1)).flat_map(move |day| {
            let mut h = (day as u64 ^ seed.rotate_left(23)).wrapping_mul(0x9E37_79B9_7F4A_7C15);
            h ^= h >> 29;
            let ns = (h % 86_400) as i64 * 1_000_000_000 + [0i64, 1, 500_000_000, 999_999_999][(h >> 20) as usize % 4];
            let off = [0i32, 3_600, -18_000, 19_800, 86_340, -86_340][(h >> 28) as usize % 6];
            // ... and one whose local date is the neighbouring day (alternately the previous and the
            // next one), so that every day is also met as the *local* date of another UTC day
            let (ns2, off2) = if day % 2 == 0 { (1_800_000_000_000i64 + (h >> 40) as i64 % 1_000_000_000, -3_600 - ((h >> 33) % 4) as i32 * 900) } else { (84_600_000_000_000i64 + (h >> 40) as i64 % 1_000_000_000, 3_600 + ((h >> 33) % 4) as i32 * 900) };
            [
                Case { kind: Kind::Date, v: Inst { day, ns: 0 }, off: 0, local_now: 0 },
                Case { kind: Kind::DateTime, v: Inst { day, ns }, off, local_now: 0 },
                Case { kind: Kind::DateTime, v: Inst { day, ns: ns2 }, off: off2, local_now: 0 },
            ]
        })
    });
    env.exhaustive_parts.push("C20: the Date and two DateTimes (one of them with its local date on the neighbouring day) of every day of the years 0001..=9999 through Display, FromStr and serde".into());
    env.run_random::<TextForms>(if t { 10_000_000 } else { 1_500_000 });
    env.run_random::<Malformed>(if t { 5_000_000 } else { 1_000_000 });
}
