//! C20 — default text forms (Display, FromStr, serde) name the value they came from.
use crate::engine::*;
use crate::gen::{self, Inst};
use crate::model::fmt::{self, Kind};
use crate::model::{cal, tl};
use crate::obs::*;
use arbitrary::Unstructured;
use astrolabe::{Date, DateTime, Offset, OffsetUtilities, Time};
use serde::{Deserialize, Serialize};

#[derive(Debug, Clone, Hash, Serialize, Deserialize)]
pub struct Case {
    pub kind: Kind,
    pub v: Inst,
    pub off: i32,
}

fn pat(kind: Kind, sep: char) -> String {
    match kind {
        Kind::Date => format!("yyyy{0}MM{0}dd", sep),
        Kind::Time => "HH:mm:ss".to_string(),
        Kind::DateTime => format!("yyyy{0}MM{0}dd HH:mm:ss", sep),
    }
}

pub struct TextForms;
impl Prop for TextForms {
    type Case = Case;
    const NAME: &'static str = "C20.text_forms";
    const BYTES: usize = 64;
    fn gen(u: &mut Unstructured<'_>) -> arbitrary::Result<Case> {
        let kind = *u.choose(&[Kind::Date, Kind::Time, Kind::DateTime, Kind::DateTime])?;
        Ok(match kind {
            Kind::Date => Case { kind, v: Inst { day: gen::day(u)?, ns: 0 }, off: 0 },
            Kind::Time => Case { kind, v: Inst { day: 0, ns: gen::day_ns(u)? }, off: gen::offset(u)? },
            Kind::DateTime => {
                if u.coin(3, 4)? {
                    Case { kind, v: Inst::from_i(gen::instant_y1_9999(u)?), off: gen::offset_minutes(u)? }
                } else {
                    Case { kind, v: gen::inst(u, 1)?, off: gen::offset(u)? }
                }
            }
        })
    }
    fn check(c: &Case, cx: &mut Cx) -> Verdict {
        if !c.v.valid() || c.off.abs() > 86_399 || (c.kind == Kind::Date && c.off != 0) {
            return Verdict::Skip("malformed case");
        }
        if c.kind == Kind::DateTime && (c.v.day < cal::MIN_DAY + 1 || c.v.day > cal::MAX_DAY - 1) {
            return Verdict::Skip("on an outermost day of the range");
        }
        let f = fmt::local_fields(c.kind, c.v.day, c.v.ns, c.off);
        if f.year < 0 || f.year > 9999 {
            cx.nt("negative_or_5+_digit_year");
        }
        if c.off != 0 {
            cx.nt("non_zero_offset");
        }
        if f.day_ns < 1_000_000_000 || f.day_ns >= 86_399_000_000_000 {
            cx.nt("within_a_second_of_midnight");
        }
        cx.label(match c.kind {
            Kind::Date => "date",
            Kind::Time => "time",
            Kind::DateTime => "datetime",
        });
        // --- Display ---
        let want_display = fmt::render(&fmt::tokenize(c.kind, &pat(c.kind, '/')), &f, c.off).unwrap();
        let disp = match c.kind {
            Kind::Date => catch(|| mk_date(c.v.day).to_string()),
            Kind::Time => catch(|| mk_time(c.v.ns as u64).set_offset(Offset::Fixed(c.off)).to_string()),
            Kind::DateTime => catch(|| mk_dt_off_any(c.v.i(), c.off).to_string()),
        };
        match disp {
            Err(p) => return fail("c20.display_panic", "to_string returns", p.short()),
            Ok(s) => {
                if s != want_display {
                    return fail("c20.display", format!("{:?} {} [{}] to_string() = {:?}", c.kind, fmt_instant(c.v.i()), c.off, want_display), format!("{:?}", s));
                }
            }
        }
        // --- FromStr on model-generated text ---
        match c.kind {
            Kind::Date => {
                let text = fmt::render(&fmt::tokenize(Kind::Date, "yyyy-MM-dd"), &f, 0).unwrap();
                match catch(|| text.parse::<Date>().map(|d| rd_date(&d))) {
                    Err(p) => return fail("c20.from_str_panic", format!("{:?}.parse::<Date>() returns", text), p.short()),
                    Ok(Err(e)) => return fail("c20.date_from_str_rejects", format!("{:?}.parse::<Date>() is Ok", text), format!("Err({})", e)),
                    Ok(Ok(d)) => {
                        if d != c.v.day {
                            return fail("c20.date_from_str_wrong", format!("{:?}.parse::<Date>() = day {}", text, c.v.day), fmt_day(d));
                        }
                    }
                }
            }
            Kind::Time => {
                let text = fmt::render(&fmt::tokenize(Kind::Time, "HH:mm:ss"), &f, 0).unwrap();
                match catch(|| text.parse::<Time>().map(|t| (t.as_nanos(), t.get_offset()))) {
                    Err(p) => return fail("c20.from_str_panic", format!("{:?}.parse::<Time>() returns", text), p.short()),
                    Ok(Err(e)) => return fail("c20.time_from_str_rejects", format!("{:?}.parse::<Time>() is Ok", text), format!("Err({})", e)),
                    Ok(Ok((n, o))) => {
                        let want = (f.day_ns / 1_000_000_000 * 1_000_000_000) as u64;
                        if n != want || o != Offset::Fixed(0) {
                            return fail("c20.time_from_str_wrong", format!("{:?}.parse::<Time>() = {} ns at UTC", text, want), format!("{} ns {:?}", n, o));
                        }
                    }
                }
            }
            Kind::DateTime => {}
        }
        // --- serde through serde_json ---
        let in_serde_domain = match c.kind {
            Kind::DateTime => {
                let fu = tl::fields(c.v.i());
                (1..=9999).contains(&fu.year) && (1..=9999).contains(&f.year) && c.off % 60 == 0
            }
            _ => true,
        };
        if !in_serde_domain {
            cx.label("datetime_outside_rfc3339_domain_(serde_not_judged)");
            return Verdict::Pass;
        }
        cx.label("serde_roundtrip");
        match c.kind {
            Kind::Date => {
                let r = catch(|| {
                    let d = mk_date(c.v.day);
                    let js = serde_json::to_string(&d).map_err(|e| e.to_string())?;
                    let back: Date = serde_json::from_str(&js).map_err(|e| format!("{} for {}", e, js))?;
                    Ok::<_, String>((js, rd_date(&back)))
                });
                match r {
                    Err(p) => fail("c20.serde_panic", "serde round trip returns", p.short()),
                    Ok(Err(e)) => fail("c20.date_serde_rejects_own_output", format!("Date {} round trips through serde", fmt_day(c.v.day)), e),
                    Ok(Ok((js, d))) => {
                        let want = format!("\"{}\"", fmt::render(&fmt::tokenize(Kind::Date, "yyyy-MM-dd"), &f, 0).unwrap());
                        if js != want {
                            return fail("c20.date_serialize", format!("serialised Date = {}", want), js);
                        }
                        if d != c.v.day {
                            return fail("c20.date_serde_roundtrip", format!("same Date {}", fmt_day(c.v.day)), fmt_day(d));
                        }
                        Verdict::Pass
                    }
                }
            }
            Kind::Time => {
                let r = catch(|| {
                    let t = mk_time(c.v.ns as u64).set_offset(Offset::Fixed(c.off));
                    let js = serde_json::to_string(&t).map_err(|e| e.to_string())?;
                    let back: Time = serde_json::from_str(&js).map_err(|e| format!("{} for {}", e, js))?;
                    Ok::<_, String>((js, back.format("HH:mm:ss")))
                });
                match r {
                    Err(p) => fail("c20.serde_panic", "serde round trip returns", p.short()),
                    Ok(Err(e)) => fail("c20.time_serde_rejects_own_output", "Time round trips through serde", e),
                    Ok(Ok((js, shown))) => {
                        let want = fmt::render(&fmt::tokenize(Kind::Time, "HH:mm:ss"), &f, c.off).unwrap();
                        if js != format!("\"{}\"", want) {
                            return fail("c20.time_serialize", format!("serialised Time = \"{}\"", want), js);
                        }
                        if shown != want {
                            return fail("c20.time_serde_roundtrip", format!("deserialised Time shows {}", want), shown);
                        }
                        Verdict::Pass
                    }
                }
            }
            Kind::DateTime => {
                let r = catch(|| {
                    let d = mk_dt_off_any(c.v.i(), c.off);
                    let js = serde_json::to_string(&d).map_err(|e| e.to_string())?;
                    let back: DateTime = serde_json::from_str(&js).map_err(|e| format!("{} for {}", e, js))?;
                    Ok::<_, String>((js, rd_dt(&back), back.get_offset()))
                });
                match r {
                    Err(p) => fail("c20.serde_panic", "serde round trip returns", p.short()),
                    Ok(Err(e)) => fail("c20.datetime_serde_rejects_own_output", "DateTime round trips through serde", e),
                    Ok(Ok((js, i, o))) => {
                        let want = c.v.i() - c.v.i().rem_euclid(tl::NS);
                        if i != want || o != Offset::Fixed(c.off) {
                            return fail(
                                "c20.datetime_serde_roundtrip",
                                format!("{} round trips to {} [{}]", js, fmt_instant(want), c.off),
                                format!("{} {:?}", fmt_instant(i), o),
                            );
                        }
                        Verdict::Pass
                    }
                }
            }
        }
    }
}

#[derive(Debug, Clone, Hash, Serialize, Deserialize)]
pub struct BadCase {
    pub kind: Kind,
    pub text: String,
}

/// malformed strings: Err (or Ok), never a panic — through FromStr and serde_json
pub struct Malformed;
impl Prop for Malformed {
    type Case = BadCase;
    const NAME: &'static str = "C20.malformed";
    const BYTES: usize = 96;
    fn gen(u: &mut Unstructured<'_>) -> arbitrary::Result<BadCase> {
        let kind = *u.choose(&[Kind::Date, Kind::Time, Kind::DateTime])?;
        let base = match kind {
            Kind::Date => *u.choose(&["2022-05-02", "-0005-02-29", "12345-12-31", "0001-01-01"])?,
            Kind::Time => *u.choose(&["12:32:01", "00:00:00", "23:59:59"])?,
            Kind::DateTime => *u.choose(&["2022-05-02T15:30:20Z", "2022-05-02T15:30:20.123456789+05:30", "9999-12-31T23:59:59.9-23:59", "0001-01-01T00:00:00.000+00:00"])?,
        };
        let mut cs: Vec<char> = base.chars().collect();
        const HOSTILE: &[char] = &['0', '9', '-', '+', ':', '.', 'T', 'Z', 'a', ' ', 'é', '日', '😀', '\'', '"', '\\', '\u{0}'];
        for _ in 0..1 + u.below(3)? {
            let k = u.below(5)?;
            let pos = if cs.is_empty() { 0 } else { u.below(cs.len() as u64)? as usize };
            match k {
                0 if !cs.is_empty() => {
                    cs.remove(pos);
                }
                1 => cs.insert(pos, if u.ratio(1, 6)? { crate::props::c11::random_non_ascii(u)? } else { *u.choose(HOSTILE)? }),
                2 if !cs.is_empty() => cs[pos] = *u.choose(HOSTILE)?,
                3 => cs.truncate(pos),
                _ => {
                    if !cs.is_empty() {
                        let c = cs[pos];
                        cs.insert(pos, c);
                    }
                }
            }
        }
        Ok(BadCase { kind, text: cs.into_iter().collect() })
    }
    fn check(c: &BadCase, cx: &mut Cx) -> Verdict {
        if c.text.len() > 400 {
            return Verdict::Skip("malformed case");
        }
        if !c.text.is_ascii() {
            cx.nt("multi_byte_character");
        }
        if c.text.len() < 8 {
            cx.nt("truncated");
        }
        let js = serde_json::to_string(&c.text).unwrap();
        let r = catch(|| match c.kind {
            Kind::Date => (c.text.parse::<Date>().is_ok(), serde_json::from_str::<Date>(&js).is_ok()),
            Kind::Time => (c.text.parse::<Time>().is_ok(), serde_json::from_str::<Time>(&js).is_ok()),
            Kind::DateTime => (c.text.parse::<DateTime>().is_ok(), serde_json::from_str::<DateTime>(&js).is_ok()),
        });
        match r {
            Err(p) => fail(&format!("c20.malformed_panic:{}", p.key()), format!("{:?}: from_str / serde of {:?} return a Result", c.kind, c.text), p.short()),
            Ok((a, b)) => {
                if a != b {
                    return fail("c20.serde_differs_from_from_str", format!("serde and FromStr agree on {:?}", c.text), format!("from_str ok={} serde ok={}", a, b));
                }
                if a {
                    cx.label("mutant_still_accepted");
                } else {
                    cx.nt("rejected_with_error");
                }
                Verdict::Pass
            }
        }
    }
}

pub fn run(env: &mut Env) {
    let t = env.thorough();
    env.run_random::<TextForms>(if t { 10_000_000 } else { 1_500_000 });
    env.run_random::<Malformed>(if t { 5_000_000 } else { 1_000_000 });
}
