//! Observation discipline (DESIGN.md 2.5): build and read astrolabe values only through
//! the public API.
use crate::model::{cal, tl};
use astrolabe::{Date, DateTime, DateUtilities, Offset, OffsetUtilities, Time, TimeUtilities};

pub fn mk_date(day: i64) -> Date {
    Date::from_timestamp((day - cal::DAYS_TO_1970) * 86_400)
}

pub fn rd_date(d: &Date) -> i64 {
    d.timestamp().div_euclid(86_400) + cal::DAYS_TO_1970
}

/// DateTime at offset 0 for an instant (ns since 0001-01-01)
pub fn mk_dt(instant: i128) -> DateTime {
    let secs = instant.div_euclid(tl::NS) as i64;
    let sub = instant.rem_euclid(tl::NS) as u32;
    let dt = DateTime::from_timestamp(secs - tl::EPOCH_1970_S);
    if sub == 0 {
        dt
    } else {
        dt.add_nanos(sub)
    }
}

pub fn mk_dt_off(instant: i128, offset: i32) -> DateTime {
    mk_dt(instant).set_offset(Offset::Fixed(offset))
}

/// instant of a DateTime (whatever its offset: whole-second offsets do not change the
/// sub-second part, and timestamp() is offset independent)
pub fn rd_dt(dt: &DateTime) -> i128 {
    // read at offset 0: the getters of a value whose *local* reading is outside the range
    // (possible in the outermost day) would panic, the instant itself is still well defined
    let z = dt.set_offset(Offset::Fixed(0));
    (z.timestamp() as i128 + tl::EPOCH_1970_S as i128) * tl::NS + z.nano() as i128
}

/// A value carrying `offset` whose offset was attached two days further inside the range and
/// which was then moved onto the instant by arithmetic. Unlike `mk_dt_off` this also builds
/// values on the outermost days whose *local* reading is not representable (set_offset refuses
/// those directly, arithmetic on an offset-carrying value reaches them).
pub fn mk_dt_off_late(instant: i128, offset: i32) -> DateTime {
    let shift = 48 * 3_600 * tl::NS;
    if instant >= 0 {
        mk_dt_off(instant - shift, offset).add_hours(48)
    } else {
        mk_dt_off(instant + shift, offset).sub_hours(48)
    }
}

/// Builds the same instant through one of several public routes (constructor + add, operator
/// with a Duration or a Time landing on the instant, set_time, ...). Every route must give an
/// indistinguishable value; a route that leaves a non-normalised value behind shows up in the
/// checks that use such operands.
pub fn mk_dt_route(instant: i128, route: u8) -> DateTime {
    let day = instant.div_euclid(tl::DAY_NS);
    let tod = instant.rem_euclid(tl::DAY_NS);
    let fits = |i: i128| tl::representable(i);
    match route % 12 {
        // one day plus a fraction added to a value within that fraction of the end of its day (two
        // carries); only for targets in the first second of a day
        10 if tod < 999_999_000 && fits(instant - tl::DAY_NS - tod - 1) => mk_dt(instant - tl::DAY_NS - tod - 1) + std::time::Duration::new(86_400, (tod + 1) as u32),
        // the value written in another zone and converted back (as_offset moves the instant by minus
        // the offset): for a target at midnight and a zone west of Greenwich the local time plus
        // the offset is exactly 24:00
        11 => {
            let off: i32 = [-18_000, -3_600, -1, -86_399, 3_600, 19_800, -28_378, 1][((instant as u64 >> 3) % 8) as usize];
            let local = instant + off as i128 * tl::NS;
            if fits(local) && fits(instant - tl::DAY_NS) && fits(instant + tl::DAY_NS) {
                mk_dt(local).as_offset(Offset::Fixed(off)).set_offset(Offset::Fixed(0))
            } else {
                mk_dt(instant)
            }
        }
        // conversions: a Date turned into a DateTime is that day's midnight at offset 0
        8 => DateTime::from(mk_date(day as i64)).set_time(Time::from_nanos(tod as u64).unwrap()),
        9 => DateTime::from(&mk_date(day as i64)) + Time::from_nanos(tod as u64).unwrap(),
        1 if fits(instant - tod) => mk_dt(instant - tod) + Time::from_nanos(tod as u64).unwrap(),
        2 if fits(instant - tl::DAY_NS) && fits(instant - tod) => {
            // (previous day, same tod) + Time that carries it exactly to the target
            let t = Time::from_nanos(((tl::DAY_NS - 1) as u64).min(86_399_999_999_999)).unwrap();
            let base = instant - (tl::DAY_NS - 1);
            if fits(base) { mk_dt(base) + t } else { mk_dt(instant) }
        }
        3 if fits(instant - 1_500_000_000) => mk_dt(instant - 1_500_000_000) + std::time::Duration::new(1, 500_000_000),
        4 if fits(instant + 86_400 * tl::NS + 7) => mk_dt(instant + 86_400 * tl::NS + 7) - std::time::Duration::new(86_400, 7),
        5 => {
            // left operand whose time of day equals the subtracted Time when the target is a midnight
            let x = if tod > 0 { tod } else { 18_000_000_000_001 };
            if fits(instant + x) { mk_dt(instant + x) - Time::from_nanos(x as u64).unwrap() } else { mk_dt(instant) }
        }
        6 => mk_dt(day * tl::DAY_NS).set_time(Time::from_nanos(tod as u64).unwrap()),
        7 if fits(instant - 3_600 * tl::NS) => mk_dt(instant - 3_600 * tl::NS).add_hours(1),
        _ => mk_dt(instant),
    }
}

/// `mk_dt_off` through a route
pub fn mk_dt_off_route(instant: i128, offset: i32, route: u8) -> DateTime {
    if route % 24 < 12 {
        mk_dt_route(instant, route % 24).set_offset(Offset::Fixed(offset))
    } else {
        mk_dt_off(instant, offset)
    }
}

/// The value `mk_dt_off(instant, offset)` denotes, built through a route chosen from the bits of
/// the instant (half of all instants: plain construction). Only routes that deliver exactly the
/// wanted instant are used - a route whose operator is broken in the *instant* is the business
/// of C04, not of the property that merely needs a receiver - so what the routes add is the
/// set of *representations* the public API can produce for one instant.
pub fn mk_dt_off_any(instant: i128, offset: i32) -> DateTime {
    let h = (instant as u64) ^ ((instant >> 37) as u64) ^ (offset as u32 as u64).wrapping_mul(0x9E37_79B9);
    let route = (h % 24) as u8;
    if route >= 12 {
        return mk_dt_off(instant, offset);
    }
    let built = std::panic::catch_unwind(|| {
        let v = mk_dt_route(instant, route);
        if rd_dt(&v) == instant {
            Some(v)
        } else {
            None
        }
    });
    match built {
        Ok(Some(v)) => v.set_offset(Offset::Fixed(offset)),
        _ => mk_dt_off(instant, offset),
    }
}

/// Canonical form of a DateTime as seen by *every* family of observers: the UTC accessors
/// (as_ymdhms / as_hms, which read the stored fields directly), the offset-0 getters, and the
/// offset-0 rendering must all agree with the instant. A value that denotes the right instant
/// but is stored non-normalised (e.g. 24:00:00 of the previous day) fails here.
pub fn canonical_dt(dt: &DateTime) -> Result<(), String> {
    let i = rd_dt(dt);
    let f = tl::fields(i);
    let z = dt.set_offset(Offset::Fixed(0));
    let want = (f.year as i32, f.month, f.dom, f.hour, f.minute, f.second);
    // only the offset-0 copy is read through as_ymdhms/as_hms: whether those accessors report UTC
    // or local fields for a value that carries an offset is not stated anywhere
    for (name, v) in [("value.set_offset(0)", &z)] {
        if v.as_ymdhms() != want {
            return Err(format!("{}.as_ymdhms() = {:?}, instant is {:?}", name, v.as_ymdhms(), want));
        }
        if v.as_hms() != (f.hour, f.minute, f.second) || v.as_ymd() != (f.year as i32, f.month, f.dom) {
            return Err(format!("{}.as_hms()/as_ymd() = {:?} {:?}, instant is {:?}", name, v.as_hms(), v.as_ymd(), want));
        }
    }
    let got = (z.year(), z.month(), z.day(), z.hour(), z.minute(), z.second());
    if got != want {
        return Err(format!("getters at offset 0 = {:?}, instant is {:?}", got, want));
    }
    let text = z.format("yyyy-MM-dd HH:mm:ss.nnnnn");
    let want_text = format!(
        "{}-{:02}-{:02} {:02}:{:02}:{:02}.{:09}",
        if f.year < 0 { format!("-{:04}", -f.year) } else { format!("{:04}", f.year) },
        f.month, f.dom, f.hour, f.minute, f.second, f.subsec
    );
    if text != want_text {
        return Err(format!("format at offset 0 = {:?}, instant is {:?}", text, want_text));
    }
    let t = Time::from(z);
    if t.as_nanos() as i128 != f.day_ns as i128 {
        return Err(format!("Time::from(value at offset 0).as_nanos() = {}, instant has {}", t.as_nanos(), f.day_ns));
    }
    // conversions read the stored day / time of day in yet another way
    let d = astrolabe::Date::from(z);
    if rd_date(&d) != f.day || rd_date(&astrolabe::Date::from(&z)) != f.day {
        return Err(format!("Date::from(value at offset 0) is day {}, instant is on day {}", rd_date(&d), f.day));
    }
    let back = DateTime::from(d);
    if rd_dt(&back) != f.day as i128 * tl::DAY_NS || back.as_hms() != (0, 0, 0) {
        return Err(format!("DateTime::from(Date::from(value)) = {}, want midnight of day {}", fmt_instant(rd_dt(&back)), f.day));
    }
    // no observer may tell the value from a freshly constructed one denoting the same instant:
    // calendar differences against day-aligned references and a date setter read the stored
    // fields in their own way
    let p = mk_dt(i);
    let rel = (*dt == p, p == *dt, dt.cmp(&p), p.cmp(dt), *dt <= p, *dt >= p, *dt < p, *dt > p, z == p, z.cmp(&p));
    if rel != (true, true, std::cmp::Ordering::Equal, std::cmp::Ordering::Equal, true, true, false, false, true, std::cmp::Ordering::Equal) {
        return Err(format!("(==, ==, cmp, cmp, <=, >=, <, >, ==, cmp) against a freshly built value of the same instant = {:?}", rel));
    }
    for r in [i - f.day_ns as i128 - 31 * tl::DAY_NS, i - f.day_ns as i128 + tl::DAY_NS, i - f.day_ns as i128] {
        if !tl::representable(r) {
            continue;
        }
        let rr = mk_dt(r);
        let got = (z.days_since(&rr), z.months_since(&rr), z.years_since(&rr), rr.days_since(&z), rr.months_since(&z));
        let want = (p.days_since(&rr), p.months_since(&rr), p.years_since(&rr), rr.days_since(&p), rr.months_since(&p));
        if got != want {
            return Err(format!("(days, months, years)_since / reversed against {} = {:?}, a freshly built equal value gives {:?}", fmt_instant(r), got, want));
        }
    }
    if f.day > cal::MIN_DAY + 40 && f.day < cal::MAX_DAY - 40 {
        let got = (z.set_day(1).ok().map(|v| rd_dt(&v)), z.set_month(f.month).ok().map(|v| rd_dt(&v)));
        let want = (p.set_day(1).ok().map(|v| rd_dt(&v)), p.set_month(f.month).ok().map(|v| rd_dt(&v)));
        if got != want {
            return Err(format!("set_day(1) / set_month(current) = {:?}, on a freshly built equal value {:?}", got.0.map(fmt_instant), want.0.map(fmt_instant)));
        }
    }
    Ok(())
}

/// `Offset::Local` is an offset too. A version-1 zone file whose offset is `off` from one day
/// before `now` on and a different one (an hour away) before that: under this file and a clock
/// pinned to `now`, a value carrying `Offset::Local` has to behave exactly like one carrying
/// `Fixed(off)` - wherever the value itself lies relative to the zone's transition (Local is
/// resolved for the current time, C18).
pub fn local_zone_bytes(off: i32, now: i64) -> Vec<u8> {
    let other = if off + 3_600 <= 86_399 { off + 3_600 } else { off - 3_600 };
    crate::tzsyn::Synth {
        version: 1,
        types: vec![(other, true), (off, false)],
        transitions: vec![(i32::MIN as i64, 0), ((now - 86_400).clamp(i32::MIN as i64 + 1, i32::MAX as i64), 1)],
        v1_populated: true,
        footer: None,
        indicators: false,
        leaps: 0,
    }
    .build()
}

/// clock values usable with `local_zone_bytes` (the transition has to fit a 32-bit table)
pub fn local_now_ok(now: i64) -> bool {
    (-2_000_000_000..=2_100_000_000).contains(&now) && now != 0
}

pub fn pin_local(off: i32, now: i64) {
    astrolabe::verif::set_localtime(Some(Ok(local_zone_bytes(off, now))));
    astrolabe::verif::set_now(Some(DateTime::from_timestamp(now)));
}

/// The same as `pin_local`, with a version-2 file whose footer alternates between two names of
/// the SAME offset `off` on the given rule days: the local offset is `off` at every instant after
/// the file's last transition, but every look-up has to evaluate the rules, for the clock's year.
/// The rule text is built by the caller from the numbers of its own case (an argument of a setter
/// as a rule day, say), so that whatever the zone code computes or remembers along the way is as
/// close to the case's own computations as it can be. Returns false (and pins the plain file) if
/// the library does not resolve this file to `off`.
pub fn pin_local_rules(off: i32, now: i64, rules: &str) -> bool {
    let posix = |o: i32| {
        let s = -(o as i64);
        let a = s.abs();
        format!("{}{}:{:02}:{:02}", if s < 0 { "-" } else { "" }, a / 3600, a / 60 % 60, a % 60)
    };
    let other = if off + 3_600 <= 86_399 { off + 3_600 } else { off - 3_600 };
    let bytes = crate::tzsyn::Synth {
        version: 2,
        types: vec![(other, true), (off, false)],
        transitions: vec![(i32::MIN as i64, 0), ((now - 86_400).clamp(i32::MIN as i64 + 1, i32::MAX as i64), 1)],
        v1_populated: true,
        footer: Some(format!("AAA{}BBB{},{}", posix(off), posix(off), rules)),
        indicators: false,
        leaps: 0,
    }
    .build();
    astrolabe::verif::set_localtime(Some(Ok(bytes)));
    astrolabe::verif::set_now(Some(DateTime::from_timestamp(now)));
    let ok = std::panic::catch_unwind(|| Offset::Local.resolve()).map(|v| v == off).unwrap_or(false);
    if !ok {
        pin_local(off, now);
    }
    ok
}

pub fn unpin_local() {
    astrolabe::verif::set_localtime(None);
    astrolabe::verif::set_now(None);
}

/// One value in eight (decided from the instant and the offset, so a replayed case behaves the
/// same) is carried as `Offset::Local` under `pin_local`: returns the value and whether it is.
/// The pin stays in force until the engine clears it after the case (`unpin_local`), so at most
/// one value per case may be built this way.
pub fn mk_dt_off_pin(instant: i128, offset: i32) -> (DateTime, bool) {
    let h = (instant as u64).wrapping_mul(0x9E37_79B9_7F4A_7C15) ^ ((instant >> 41) as u64) ^ (offset as u32 as u64).wrapping_mul(0xD6E8_FEB8_6659_FD93);
    let day = instant.div_euclid(tl::DAY_NS) as i64;
    if (h >> 17) % 8 != 0 || day < cal::MIN_DAY + 3 || day > cal::MAX_DAY - 3 {
        return (mk_dt_off_any(instant, offset), false);
    }
    let now = -1_900_000_000 + ((h >> 23) % 4_000_000_000) as i64;
    if !local_now_ok(now) {
        return (mk_dt_off_any(instant, offset), false);
    }
    pin_local(offset, now);
    (mk_dt_off_any(instant, 0).set_offset(Offset::Local), true)
}

pub fn off_of_dt(dt: &DateTime) -> Offset {
    dt.get_offset()
}

pub fn mk_time(ns: u64) -> Time {
    Time::from_nanos(ns).expect("harness builds in-day times only")
}

pub fn fmt_instant(i: i128) -> String {
    let f = tl::fields(i);
    format!(
        "{}-{:02}-{:02}T{:02}:{:02}:{:02}.{:09}Z(day {})",
        f.year, f.month, f.dom, f.hour, f.minute, f.second, f.subsec, f.day
    )
}

pub fn fmt_day(d: i64) -> String {
    let (y, m, dd) = cal::ymd_from_days(d);
    format!("{}-{:02}-{:02}(day {})", y, m, dd, d)
}

/// Instrument self-test: the four functions every check uses to build and read values.
pub fn self_test() -> Result<(), String> {
    let days = [cal::MIN_DAY, cal::MIN_DAY + 1, -146_097, -366, -1, 0, 1, 719_162, 738_000, cal::MAX_DAY - 1, cal::MAX_DAY];
    let subs = [0i128, 1, 999_999_999, 43_200 * tl::NS, tl::DAY_NS - 1];
    for &d in &days {
        let date = crate::engine::catch(|| mk_date(d)).map_err(|p| format!("mk_date({}) {}", d, p.short()))?;
        if rd_date(&date) != d {
            return Err(format!("Date day {} reads back {}", d, rd_date(&date)));
        }
        for &s in &subs {
            let i = d as i128 * tl::DAY_NS + s;
            let dt = crate::engine::catch(|| mk_dt(i)).map_err(|p| format!("mk_dt({}) {}", i, p.short()))?;
            let back = rd_dt(&dt);
            if back != i {
                return Err(format!("DateTime instant {} reads back {}", i, back));
            }
        }
    }
    Ok(())
}
