//! Reference TZif reader (RFC 8536) and POSIX TZ rule evaluator, independent of
//! src/local/*. Cross-checked against CPython's zoneinfo on the vendored zone files
//! (corpus/tzif/golden.jsonl) in the model self-test.
use super::cal;

#[derive(Debug, Clone, PartialEq)]
pub enum RuleDay {
    /// Jn, 1..=365, 29 February never counted
    Julian(u32),
    /// n, 0..=365, 29 February counted
    ZeroBased(u32),
    /// Mm.w.d
    Mwd(u32, u32, u32),
}

#[derive(Debug, Clone, PartialEq)]
pub struct PosixTz {
    /// UTC offset of standard time, seconds east (= -POSIX offset)
    pub std_utoff: i32,
    pub dst: Option<Dst>,
}

#[derive(Debug, Clone, PartialEq)]
pub struct Dst {
    pub utoff: i32,
    pub start: RuleDay,
    /// local (standard) time of the switch to DST, seconds, may be negative / > 24 h
    pub start_time: i32,
    pub end: RuleDay,
    /// local (daylight) time of the switch back
    pub end_time: i32,
}

struct P<'a> {
    b: &'a [u8],
    at: usize,
}

impl<'a> P<'a> {
    fn peek(&self) -> Option<u8> {
        self.b.get(self.at).copied()
    }
    fn eat(&mut self, c: u8) -> bool {
        if self.peek() == Some(c) {
            self.at += 1;
            true
        } else {
            false
        }
    }
    fn name(&mut self) -> Result<(), String> {
        if self.eat(b'<') {
            let start = self.at;
            while let Some(c) = self.peek() {
                if c == b'>' {
                    break;
                }
                self.at += 1;
            }
            if !self.eat(b'>') || self.at - start < 2 {
                return Err("bad <> name".into());
            }
            Ok(())
        } else {
            let start = self.at;
            while matches!(self.peek(), Some(c) if c.is_ascii_alphabetic()) {
                self.at += 1;
            }
            if self.at - start < 3 {
                return Err("name shorter than 3".into());
            }
            Ok(())
        }
    }
    fn number(&mut self, max_digits: usize) -> Result<i32, String> {
        let start = self.at;
        while matches!(self.peek(), Some(c) if c.is_ascii_digit()) {
            self.at += 1;
        }
        if self.at == start || self.at - start > max_digits {
            return Err("bad number".into());
        }
        std::str::from_utf8(&self.b[start..self.at]).unwrap().parse().map_err(|_| "bad number".to_string())
    }
    /// [+-]h[h[h]][:mm[:ss]] in seconds
    fn hms(&mut self, max_hour: i32) -> Result<i32, String> {
        let neg = if self.eat(b'-') {
            true
        } else {
            self.eat(b'+');
            false
        };
        let h = self.number(3)?;
        let (mut m, mut s) = (0, 0);
        if self.eat(b':') {
            m = self.number(2)?;
            if self.eat(b':') {
                s = self.number(2)?;
            }
        }
        if h > max_hour || m > 59 || s > 59 {
            return Err("time field out of range".into());
        }
        let v = h * 3600 + m * 60 + s;
        Ok(if neg { -v } else { v })
    }
    fn rule(&mut self, v3: bool) -> Result<(RuleDay, i32), String> {
        let day = if self.eat(b'J') {
            let n = self.number(3)?;
            if !(1..=365).contains(&n) {
                return Err("Jn out of range".into());
            }
            RuleDay::Julian(n as u32)
        } else if self.eat(b'M') {
            let m = self.number(2)?;
            if !self.eat(b'.') {
                return Err("M rule".into());
            }
            let w = self.number(1)?;
            if !self.eat(b'.') {
                return Err("M rule".into());
            }
            let d = self.number(1)?;
            if !(1..=12).contains(&m) || !(1..=5).contains(&w) || !(0..=6).contains(&d) {
                return Err("M rule field out of range".into());
            }
            RuleDay::Mwd(m as u32, w as u32, d as u32)
        } else {
            let n = self.number(3)?;
            if !(0..=365).contains(&n) {
                return Err("n out of range".into());
            }
            RuleDay::ZeroBased(n as u32)
        };
        let time = if self.eat(b'/') {
            let before = self.at;
            let t = self.hms(if v3 { 167 } else { 24 })?;
            if !v3 && self.b[before] == b'-' {
                return Err("negative time needs version 3".into());
            }
            t
        } else {
            7200
        };
        Ok((day, time))
    }
}

pub fn parse_posix_tz(s: &str, v3: bool) -> Result<PosixTz, String> {
    let mut p = P { b: s.as_bytes(), at: 0 };
    p.name()?;
    let std_off = p.hms(24)?;
    if p.at == p.b.len() {
        return Ok(PosixTz { std_utoff: -std_off, dst: None });
    }
    p.name()?;
    let dst_off = if matches!(p.peek(), Some(c) if c != b',') { p.hms(24)? } else { std_off - 3600 };
    if !p.eat(b',') {
        return Err("DST without rules".into());
    }
    let (start, start_time) = p.rule(v3)?;
    if !p.eat(b',') {
        return Err("missing end rule".into());
    }
    let (end, end_time) = p.rule(v3)?;
    if p.at != p.b.len() {
        return Err("trailing characters".into());
    }
    Ok(PosixTz { std_utoff: -std_off, dst: Some(Dst { utoff: -dst_off, start, start_time, end, end_time }) })
}

/// day number (0 = 0001-01-01) of a rule day in astronomical year == display year `y` (y >= 1)
pub fn rule_date(rule: &RuleDay, y: i64) -> i64 {
    let jan1 = cal::days_from_ymd(y, 1, 1);
    match rule {
        RuleDay::Julian(n) => {
            let n = *n as i64;
            // day n of a 365-day year: after Feb 28 (day 59) a leap year is one day further
            jan1 + n - 1 + if cal::is_leap(y) && n >= 60 { 1 } else { 0 }
        }
        RuleDay::ZeroBased(n) => jan1 + *n as i64,
        RuleDay::Mwd(m, w, d) => {
            let first = cal::days_from_ymd(y, *m, 1);
            let wd_first = cal::weekday(first) as i64;
            let mut day = first + (*d as i64 - wd_first).rem_euclid(7) + 7 * (*w as i64 - 1);
            let last = first + cal::month_len(y, *m) as i64 - 1;
            while day > last {
                day -= 7;
            }
            day
        }
    }
}

impl PosixTz {
    /// UTC offset in effect at Unix time `t` (Appendix C of DESIGN.md: latest event <= t
    /// among the switch instants of years y-1, y, y+1)
    pub fn offset_at(&self, t: i64) -> i32 {
        let Some(dst) = &self.dst else { return self.std_utoff };
        let day = t.div_euclid(86_400) + cal::DAYS_TO_1970;
        let (y, _, _) = cal::ymd_from_days(day);
        let mut best: Option<(i64, bool)> = None; // (instant, is_dst_after)
        // the calendar has no year 0: -1 is followed by 1
        let prev = if y - 1 == 0 { -1 } else { y - 1 };
        let next = if y + 1 == 0 { 1 } else { y + 1 };
        for yy in [prev, y, next] {
            if yy < cal::MIN_YMD.0 || yy > cal::MAX_YMD.0 {
                continue;
            }
            let start = (rule_date(&dst.start, yy) - cal::DAYS_TO_1970) * 86_400 + dst.start_time as i64 - self.std_utoff as i64;
            let end = (rule_date(&dst.end, yy) - cal::DAYS_TO_1970) * 86_400 + dst.end_time as i64 - dst.utoff as i64;
            for (inst, is_dst) in [(start, true), (end, false)] {
                if inst <= t && best.map(|(b, _)| inst > b).unwrap_or(true) {
                    best = Some((inst, is_dst));
                }
            }
        }
        match best {
            Some((_, true)) => dst.utoff,
            _ => self.std_utoff,
        }
    }
    /// all switch instants (utc seconds, utoff after) for a year
    pub fn events(&self, y: i64) -> Vec<(i64, i32)> {
        let Some(dst) = &self.dst else { return vec![] };
        let start = (rule_date(&dst.start, y) - cal::DAYS_TO_1970) * 86_400 + dst.start_time as i64 - self.std_utoff as i64;
        let end = (rule_date(&dst.end, y) - cal::DAYS_TO_1970) * 86_400 + dst.end_time as i64 - dst.utoff as i64;
        let mut v = vec![(start, dst.utoff), (end, self.std_utoff)];
        v.sort();
        v
    }
}

#[derive(Debug, Clone)]
pub struct TzFile {
    pub version: u8,
    pub transitions: Vec<(i64, usize)>,
    pub utoffs: Vec<i32>,
    pub footer: Option<String>,
    pub rule: Option<PosixTz>,
}

fn be32(b: &[u8], at: usize) -> Option<u32> {
    b.get(at..at + 4).map(|s| u32::from_be_bytes(s.try_into().unwrap()))
}

struct Header {
    version: u8,
    isut: usize,
    isstd: usize,
    leap: usize,
    time: usize,
    typ: usize,
    chars: usize,
}

fn header(b: &[u8], at: usize) -> Result<Header, String> {
    if b.get(at..at + 4) != Some(b"TZif") {
        return Err("magic".into());
    }
    let version = match b.get(at + 4) {
        Some(0) => 1,
        Some(b'2') => 2,
        Some(b'3') => 3,
        Some(b'4') => 4,
        _ => return Err("version".into()),
    };
    let f = |k: usize| be32(b, at + 20 + 4 * k).map(|v| v as usize).ok_or("truncated header".to_string());
    Ok(Header { version, isut: f(0)?, isstd: f(1)?, leap: f(2)?, time: f(3)?, typ: f(4)?, chars: f(5)? })
}

pub fn read(b: &[u8]) -> Result<TzFile, String> {
    let h1 = header(b, 0)?;
    let block_len = |h: &Header, ts: usize| h.time * ts + h.time + h.typ * 6 + h.chars + h.leap * (ts + 4) + h.isstd + h.isut;
    let (h, at, ts) = if h1.version == 1 {
        (h1, 44usize, 4usize)
    } else {
        let skip = 44 + block_len(&h1, 4);
        let h2 = header(b, skip)?;
        (h2, skip + 44, 8usize)
    };
    if at + block_len(&h, ts) > b.len() {
        return Err("truncated data block".into());
    }
    if h.typ == 0 {
        return Err("no local time types".into());
    }
    let mut transitions = Vec::with_capacity(h.time);
    for i in 0..h.time {
        let o = at + i * ts;
        let t = if ts == 4 { i32::from_be_bytes(b[o..o + 4].try_into().unwrap()) as i64 } else { i64::from_be_bytes(b[o..o + 8].try_into().unwrap()) };
        let idx = b[at + h.time * ts + i] as usize;
        if idx >= h.typ {
            return Err("transition type out of range".into());
        }
        if let Some(&(prev, _)) = transitions.last() {
            if t <= prev {
                return Err("transition times not increasing".into());
            }
        }
        transitions.push((t, idx));
    }
    let types_at = at + h.time * ts + h.time;
    let utoffs: Vec<i32> = (0..h.typ).map(|i| i32::from_be_bytes(b[types_at + i * 6..types_at + i * 6 + 4].try_into().unwrap())).collect();
    let end = at + block_len(&h, ts);
    let (footer, rule) = if h.version >= 2 {
        let f = &b[end..];
        if f.len() < 2 || f[0] != b'\n' || *f.last().unwrap() != b'\n' {
            return Err("footer not newline enclosed".into());
        }
        let s = std::str::from_utf8(&f[1..f.len() - 1]).map_err(|_| "footer not utf-8".to_string())?;
        if s.is_empty() {
            (Some(String::new()), None)
        } else {
            let r = parse_posix_tz(s, h.version >= 3)?;
            (Some(s.to_string()), Some(r))
        }
    } else {
        (None, None)
    };
    Ok(TzFile { version: h.version, transitions, utoffs, footer, rule })
}

impl TzFile {
    /// None = not judged (before the first transition, or nothing defines the offset)
    pub fn offset_at(&self, t: i64) -> Option<i32> {
        match self.transitions.last() {
            None => match &self.rule {
                Some(r) => Some(r.offset_at(t)),
                None => {
                    if self.footer.as_deref() == Some("") {
                        None
                    } else {
                        Some(self.utoffs[0])
                    }
                }
            },
            Some(&(last, last_idx)) => {
                if t < self.transitions[0].0 {
                    return None;
                }
                if t >= last {
                    return match &self.rule {
                        Some(r) => Some(r.offset_at(t)),
                        None => Some(self.utoffs[last_idx]),
                    };
                }
                let i = self.transitions.partition_point(|&(tt, _)| tt <= t);
                Some(self.utoffs[self.transitions[i - 1].1])
            }
        }
    }
}

#[derive(serde::Deserialize)]
struct GoldenLine {
    flavour: String,
    file: String,
    rows: Vec<(i64, i32)>,
}

/// Self-test against CPython's zoneinfo answers on the vendored files.
pub fn self_test() -> Result<u64, String> {
    let text = std::fs::read_to_string("/verif/corpus/tzif/golden.jsonl").map_err(|e| format!("golden.jsonl: {}", e))?;
    let mut n = 0u64;
    let mut files = 0;
    for line in text.lines() {
        let g: GoldenLine = serde_json::from_str(line).map_err(|e| e.to_string())?;
        let bytes = std::fs::read(format!("/verif/corpus/tzif/{}/{}", g.flavour, g.file)).map_err(|e| e.to_string())?;
        let tz = read(&bytes).map_err(|e| format!("reference reader rejects {}/{}: {}", g.flavour, g.file, e))?;
        files += 1;
        for (t, want) in g.rows {
            match tz.offset_at(t) {
                Some(got) if got == want => n += 1,
                Some(got) => return Err(format!("reference TZif evaluator: {}/{} at {}: {} but CPython zoneinfo says {}", g.flavour, g.file, t, got, want)),
                None => {}
            }
        }
    }
    if files < 700 || n < 100_000 {
        return Err(format!("TZif golden too small: {} files, {} rows", files, n));
    }
    Ok(n)
}
