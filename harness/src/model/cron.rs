//! Reference cron: parser for the documented grammar (CronSchedule::parse docs, crontab(5))
//! and "earliest matching minute" search. Independent of src/cron.rs.
use super::cal;

#[derive(Debug, Clone, PartialEq, Eq)]
pub struct Sets {
    pub minutes: Vec<bool>, // 60
    pub hours: Vec<bool>,   // 24
    pub dom: Vec<bool>,     // index 1..=31 (0 unused)
    pub months: Vec<bool>,  // index 1..=12
    pub dow: Vec<bool>,     // 7, 0 = Sunday
}

#[derive(Debug, Clone, PartialEq, Eq)]
pub enum Parsed {
    Accept(Sets),
    Reject(&'static str),
    Unspecified(&'static str),
}

const MONTHS: [&str; 12] = ["jan", "feb", "mar", "apr", "may", "jun", "jul", "aug", "sep", "oct", "nov", "dec"];
const DAYS: [&str; 7] = ["sun", "mon", "tue", "wed", "thu", "fri", "sat"];

#[derive(Clone, Copy, PartialEq)]
pub enum FieldKind {
    Minute,
    Hour,
    Dom,
    Month,
    Dow,
}

impl FieldKind {
    pub fn range(self) -> (u32, u32) {
        match self {
            FieldKind::Minute => (0, 59),
            FieldKind::Hour => (0, 23),
            FieldKind::Dom => (1, 31),
            FieldKind::Month => (1, 12),
            FieldKind::Dow => (0, 7),
        }
    }
}

enum Val {
    Ok(u32),
    Reject(&'static str),
    Unspec(&'static str),
}

fn value(s: &str, kind: FieldKind) -> Val {
    if s.is_empty() {
        return Val::Reject("empty value");
    }
    if s.bytes().all(|b| b.is_ascii_digit()) {
        if s.len() > 1 && s.starts_with('0') {
            return Val::Unspec("leading zero");
        }
        if s.len() > 6 {
            return Val::Reject("value out of range");
        }
        let v: u32 = s.parse().unwrap();
        let (lo, hi) = kind.range();
        if v < lo || v > hi {
            return Val::Reject("value out of range");
        }
        return Val::Ok(v);
    }
    if s.starts_with('+') && s[1..].bytes().all(|b| b.is_ascii_digit()) && s.len() > 1 {
        // the property lists "a stray character" among the rejected inputs, and the documented
        // grammar has no sign; the crate rejects it in every field
        return Val::Reject("stray character (+)");
    }
    let lower = s.to_ascii_lowercase();
    if !s.is_ascii() {
        return Val::Reject("stray character");
    }
    match kind {
        FieldKind::Month => match MONTHS.iter().position(|m| *m == lower) {
            Some(i) => Val::Ok(i as u32 + 1),
            None => Val::Reject("unknown name / stray character"),
        },
        FieldKind::Dow => match DAYS.iter().position(|m| *m == lower) {
            Some(i) => Val::Ok(i as u32),
            None => Val::Reject("unknown name / stray character"),
        },
        _ => Val::Reject("name or stray character in a numeric field"),
    }
}

/// Ok(set as Vec<bool> indexed by value, dow 7 folded into 0)
pub fn field(text: &str, kind: FieldKind) -> Result<Vec<bool>, Parsed> {
    let (lo, hi) = kind.range();
    let size = if kind == FieldKind::Dow { 7 } else { hi as usize + 1 };
    let mut set = vec![false; size];
    let mut put = |v: u32| {
        let v = if kind == FieldKind::Dow && v == 7 { 0 } else { v };
        set[v as usize] = true;
    };
    let top = if kind == FieldKind::Dow { 6 } else { hi };
    let mut unspec: Option<&'static str> = None;
    for item in text.split(',') {
        if item.is_empty() {
            return Err(Parsed::Reject("empty item"));
        }
        if item == "*" {
            for v in lo..=top {
                put(v);
            }
        } else if let Some(step) = item.strip_prefix("*/") {
            if step.is_empty() || !step.bytes().all(|b| b.is_ascii_digit()) {
                return Err(Parsed::Reject("malformed step"));
            }
            if step.len() > 1 && step.starts_with('0') {
                unspec = Some("leading zero");
                continue;
            }
            if step.len() > 6 {
                unspec = Some("step larger than the field");
                continue;
            }
            let s: u32 = step.parse().unwrap();
            if s == 0 {
                return Err(Parsed::Reject("zero step"));
            }
            if s > top + 1 {
                unspec = Some("step larger than the field");
                continue;
            }
            let mut v = lo;
            while v <= top {
                put(v);
                v += s;
            }
        } else if item.contains('*') || item.contains('/') {
            return Err(Parsed::Reject("stray * or /"));
        } else if item.contains('-') {
            let parts: Vec<&str> = item.split('-').collect();
            if parts.len() != 2 {
                return Err(Parsed::Reject("range with more than one dash"));
            }
            let a = match value(parts[0], kind) {
                Val::Ok(v) => Some(v),
                Val::Reject(r) => return Err(Parsed::Reject(r)),
                Val::Unspec(r) => {
                    unspec = Some(r);
                    None
                }
            };
            let b = match value(parts[1], kind) {
                Val::Ok(v) => Some(v),
                Val::Reject(r) => return Err(Parsed::Reject(r)),
                Val::Unspec(r) => {
                    unspec = Some(r);
                    None
                }
            };
            if let (Some(a), Some(b)) = (a, b) {
                if a > b {
                    unspec = Some("range with start > end");
                    continue;
                }
                for v in a..=b {
                    put(v);
                }
            }
        } else {
            match value(item, kind) {
                Val::Ok(v) => put(v),
                Val::Reject(r) => return Err(Parsed::Reject(r)),
                Val::Unspec(r) => unspec = Some(r),
            }
        }
    }
    if let Some(r) = unspec {
        return Err(Parsed::Unspecified(r));
    }
    Ok(set)
}

pub fn parse(expr: &str) -> Parsed {
    if expr.chars().any(|c| c.is_whitespace() && c != ' ' && c != '\t') {
        return Parsed::Unspecified("white space other than space/tab");
    }
    let fields: Vec<&str> = expr.split([' ', '\t']).filter(|f| !f.is_empty()).collect();
    if fields.len() != 5 {
        return Parsed::Reject("not five fields");
    }
    let kinds = [FieldKind::Minute, FieldKind::Hour, FieldKind::Dom, FieldKind::Month, FieldKind::Dow];
    let mut sets: Vec<Vec<bool>> = Vec::new();
    let mut unspec = None;
    for (f, k) in fields.iter().zip(kinds) {
        match field(f, k) {
            Ok(s) => sets.push(s),
            Err(Parsed::Reject(r)) => return Parsed::Reject(r),
            Err(Parsed::Unspecified(r)) => {
                unspec = Some(r);
                sets.push(Vec::new());
            }
            Err(Parsed::Accept(_)) => unreachable!(),
        }
    }
    if let Some(r) = unspec {
        return Parsed::Unspecified(r);
    }
    let dow = sets.pop().unwrap();
    let months = sets.pop().unwrap();
    let dom = sets.pop().unwrap();
    let hours = sets.pop().unwrap();
    let minutes = sets.pop().unwrap();
    Parsed::Accept(Sets { minutes, hours, dom, months, dow })
}

impl Sets {
    pub fn dom_restricted(&self) -> bool {
        self.dom[1..=31].iter().any(|b| !*b)
    }
    pub fn dow_restricted(&self) -> bool {
        self.dow.iter().any(|b| !*b)
    }
    pub fn day_matches(&self, day: i64) -> bool {
        let (_, m, d) = cal::ymd_from_days(day);
        if !self.months[m as usize] {
            return false;
        }
        let dom_ok = self.dom[d as usize];
        let dow_ok = self.dow[cal::weekday(day) as usize];
        match (self.dom_restricted(), self.dow_restricted()) {
            (true, true) => dom_ok || dow_ok,
            (true, false) => dom_ok,
            (false, true) => dow_ok,
            (false, false) => true,
        }
    }
    /// some calendar day can match (Feb 29 counts)
    pub fn satisfiable(&self) -> bool {
        if !self.minutes.iter().any(|b| *b) || !self.hours.iter().any(|b| *b) || !self.months[1..].iter().any(|b| *b) {
            return false;
        }
        if !self.dom_restricted() || self.dow_restricted() {
            return self.dow.iter().any(|b| *b) || self.dom[1..].iter().any(|b| *b);
        }
        const MAXLEN: [usize; 13] = [0, 31, 29, 31, 30, 31, 30, 31, 31, 30, 31, 30, 31];
        (1..=12).any(|m| self.months[m] && (1..=MAXLEN[m]).any(|d| self.dom[d]))
    }
    /// earliest matching minute strictly after `after` (minutes since 0001-01-01T00:00),
    /// searching at most `horizon_days` days
    pub fn next_after(&self, after: i64, horizon_days: i64) -> Option<i64> {
        let start = after + 1;
        let first_day = start.div_euclid(1440);
        for day in first_day..=first_day + horizon_days {
            if !self.day_matches(day) {
                continue;
            }
            let from = if day == first_day { start.rem_euclid(1440) } else { 0 };
            for minute_of_day in from..1440 {
                if self.hours[(minute_of_day / 60) as usize] && self.minutes[(minute_of_day % 60) as usize] {
                    return Some(day * 1440 + minute_of_day);
                }
            }
        }
        None
    }
    /// formulation B: brute-force minute-by-minute scan (short horizons)
    pub fn next_after_b(&self, after: i64, max_minutes: i64) -> Option<i64> {
        for t in after + 1..=after + max_minutes {
            let day = t.div_euclid(1440);
            let mod_ = t.rem_euclid(1440);
            if self.day_matches(day) && self.hours[(mod_ / 60) as usize] && self.minutes[(mod_ % 60) as usize] {
                return Some(t);
            }
        }
        None
    }
}

pub fn self_test() -> Result<u64, String> {
    let mut n = 0;
    let acc = |e: &str| matches!(parse(e), Parsed::Accept(_));
    let rej = |e: &str| matches!(parse(e), Parsed::Reject(_));
    for e in ["* * * * *", "*/5 * * * *", "0 10 * * Mon-Fri", "1,3-5,10-15 * * * *", "0 0 1 JAN sun", "0 0 * * 7", "0 0 * * 5-7", "0 0 * * 0-7", " 0\t0 1 1 * "] {
        if !acc(e) {
            return Err(format!("reference cron parser rejects {:?}", e));
        }
        n += 1;
    }
    for e in ["* * * *", "* * * * * *", "60 * * * *", "* 24 * * *", "* * 0 * *", "* * * 13 *", "* * * * 8", "*/0 * * * *", "1,,2 * * * *", "1-2-3 * * * *", "a * * * *", "* * * * mond", "*/ * * * *", "1- * * * *", "-1 * * * *", "** * * * *", "1-5/2 * * * *"] {
        if !rej(e) {
            return Err(format!("reference cron parser does not reject {:?}: {:?}", e, parse(e)));
        }
        n += 1;
    }
    // 5-7 denotes Fri, Sat, Sun; 0-7 all days
    if let Parsed::Accept(s) = parse("0 0 * * 5-7") {
        if s.dow != vec![true, false, false, false, false, true, true] {
            return Err("5-7".into());
        }
    }
    // next_after A vs B on a few schedules
    for e in ["*/7 3,5 * * *", "59 23 31 12 *", "0 0 1 * mon", "30 12 * feb,mar 3"] {
        if let Parsed::Accept(s) = parse(e) {
            let mut t = cal::days_from_ymd(2023, 12, 30) * 1440 + 17;
            for _ in 0..30 {
                let a = s.next_after(t, 3000);
                let b = s.next_after_b(t, 800 * 1440);
                if a != b {
                    return Err(format!("cron next A/B differ for {:?} after {}: {:?} vs {:?}", e, t, a, b));
                }
                t = a.unwrap();
                n += 1;
            }
        }
    }
    Ok(n)
}
