pub mod cal;
pub mod tl;
