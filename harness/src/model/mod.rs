pub mod cal;
pub mod tl;
pub mod fmt;
pub mod cron;
pub mod tz;
