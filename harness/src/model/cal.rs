//! Reference proleptic Gregorian calendar, written from the specification
//! (Gregorian leap rule, no year 0), independent of astrolabe. i64 only.
//!
//! Day numbers: 0 = 0001-01-01 (a Monday); representable days are i32::MIN..=i32::MAX.
//! "Display year" = the year the crate shows (…, -2, -1, 1, 2, …); "astronomical year"
//! has a year 0 (= display -1).

pub const MIN_DAY: i64 = i32::MIN as i64;
pub const MAX_DAY: i64 = i32::MAX as i64;
pub const DAYS_TO_1970: i64 = 719_162;
/// documented range ends
pub const MIN_YMD: (i64, u32, u32) = (-5_879_611, 6, 23);
pub const MAX_YMD: (i64, u32, u32) = (5_879_611, 7, 12);

pub fn astro_from_display(y: i64) -> i64 {
    debug_assert!(y != 0);
    if y < 0 {
        y + 1
    } else {
        y
    }
}

pub fn display_from_astro(a: i64) -> i64 {
    if a <= 0 {
        a - 1
    } else {
        a
    }
}

pub fn is_leap_astro(a: i64) -> bool {
    a.rem_euclid(4) == 0 && (a.rem_euclid(100) != 0 || a.rem_euclid(400) == 0)
}

/// leap rule on display years (year 0 does not exist; caller must not pass 0)
pub fn is_leap(y: i64) -> bool {
    is_leap_astro(astro_from_display(y))
}

pub fn year_len(y: i64) -> u32 {
    if is_leap(y) {
        366
    } else {
        365
    }
}

pub fn month_len(y: i64, m: u32) -> u32 {
    match m {
        1 | 3 | 5 | 7 | 8 | 10 | 12 => 31,
        4 | 6 | 9 | 11 => 30,
        2 => {
            if is_leap(y) {
                29
            } else {
                28
            }
        }
        _ => 0,
    }
}

/// Formulation A: closed form (days-from-civil on astronomical years, Hinnant's algorithm).
pub fn days_from_astro(a: i64, m: u32, d: u32) -> i64 {
    let y = if m <= 2 { a - 1 } else { a };
    let era = y.div_euclid(400);
    let yoe = y.rem_euclid(400);
    let mp = (m as i64 + 9) % 12;
    let doy = (153 * mp + 2) / 5 + d as i64 - 1;
    let doe = yoe * 365 + yoe / 4 - yoe / 100 + doy;
    // days since 0000-03-01 (astronomical); 0001-01-01 is 306 days later
    era * 146_097 + doe - 306
}

pub fn days_from_ymd(y: i64, m: u32, d: u32) -> i64 {
    days_from_astro(astro_from_display(y), m, d)
}

pub fn astro_from_days(day: i64) -> (i64, u32, u32) {
    let z = day + 306;
    let era = z.div_euclid(146_097);
    let doe = z.rem_euclid(146_097);
    let yoe = (doe - doe / 1460 + doe / 36_524 - doe / 146_096) / 365;
    let doy = doe - (365 * yoe + yoe / 4 - yoe / 100);
    let mp = (5 * doy + 2) / 153;
    let d = (doy - (153 * mp + 2) / 5 + 1) as u32;
    let m = if mp < 10 { mp + 3 } else { mp - 9 } as u32;
    let y = yoe + era * 400 + if m <= 2 { 1 } else { 0 };
    (y, m, d)
}

/// (display year, month, day) of a day number
pub fn ymd_from_days(day: i64) -> (i64, u32, u32) {
    let (a, m, d) = astro_from_days(day);
    (display_from_astro(a), m, d)
}

/// Formulation B: successor of a calendar date using only the plain rules.
pub fn next_date((y, m, d): (i64, u32, u32)) -> (i64, u32, u32) {
    if d < month_len(y, m) {
        (y, m, d + 1)
    } else if m < 12 {
        (y, m + 1, 1)
    } else if y == -1 {
        (1, 1, 1)
    } else {
        (y + 1, 1, 1)
    }
}

pub fn prev_date((y, m, d): (i64, u32, u32)) -> (i64, u32, u32) {
    if d > 1 {
        (y, m, d - 1)
    } else if m > 1 {
        (y, m - 1, month_len(y, m - 1))
    } else if y == 1 {
        (-1, 12, 31)
    } else {
        (y - 1, 12, 31)
    }
}

/// exists as a calendar date (any year except 0)
pub fn exists(y: i64, m: u32, d: u32) -> bool {
    y != 0 && (1..=12).contains(&m) && d >= 1 && d <= month_len(y, m)
}

/// exists and is inside the representable range
pub fn valid_in_range(y: i64, m: u32, d: u32) -> bool {
    exists(y, m, d) && (y, m, d) >= MIN_YMD && (y, m, d) <= MAX_YMD
}

/// 0 = Sunday … 6 = Saturday. Day 0 (0001-01-01) is a Monday.
pub fn weekday(day: i64) -> u32 {
    (day + 1).rem_euclid(7) as u32
}

/// Formulation B: anchor 1970-01-01 = Thursday (4)
pub fn weekday_b(day: i64) -> u32 {
    (4 + (day - DAYS_TO_1970)).rem_euclid(7) as u32
}

pub fn day_of_year(day: i64) -> u32 {
    let (y, _, _) = ymd_from_days(day);
    (day - days_from_ymd(y, 1, 1) + 1) as u32
}

/// ISO-8601 week number, formulation A: the week belongs to the year of its Thursday.
pub fn iso_week(day: i64) -> u32 {
    // Monday-based weekday 0..=6
    let wd = day.rem_euclid(7); // day 0 is Monday
    let thursday = day - wd + 3;
    let (a, _, _) = astro_from_days(thursday);
    let jan1 = days_from_astro(a, 1, 1);
    ((thursday - jan1) / 7 + 1) as u32
}

/// ISO-8601 week number, formulation B: week 1 is the week containing 4 January.
pub fn iso_week_b(day: i64) -> u32 {
    let (a, _, _) = astro_from_days(day);
    let week1_monday = |a: i64| {
        let jan4 = days_from_astro(a, 1, 4);
        jan4 - jan4.rem_euclid(7)
    };
    let start = if day >= week1_monday(a + 1) {
        week1_monday(a + 1)
    } else if day >= week1_monday(a) {
        week1_monday(a)
    } else {
        week1_monday(a - 1)
    };
    ((day - start) / 7 + 1) as u32
}

pub fn quarter(m: u32) -> u32 {
    (m - 1) / 3 + 1
}

/// Month arithmetic, formulation A: astronomical month index, floor division, clamp.
/// Returns None if the (unclamped-year) target has no representation in i64 sense; range
/// is judged by the caller via `valid_in_range`.
pub fn add_months((y, m, d): (i64, u32, u32), delta: i64) -> (i64, u32, u32) {
    let idx = astro_from_display(y) * 12 + (m as i64 - 1) + delta;
    let a = idx.div_euclid(12);
    let m2 = idx.rem_euclid(12) as u32 + 1;
    let y2 = display_from_astro(a);
    let d2 = d.min(month_len(y2, m2));
    (y2, m2, d2)
}

/// Formulation B: step one month at a time (for small |delta|), clamp at the end only.
pub fn add_months_b((y, m, d): (i64, u32, u32), delta: i64) -> (i64, u32, u32) {
    let (mut y, mut m) = (y, m);
    for _ in 0..delta.abs() {
        if delta > 0 {
            if m == 12 {
                m = 1;
                y = if y == -1 { 1 } else { y + 1 };
            } else {
                m += 1;
            }
        } else if m == 1 {
            m = 12;
            y = if y == 1 { -1 } else { y - 1 };
        } else {
            m -= 1;
        }
    }
    (y, m, d.min(month_len(y, m)))
}

pub const MONTH_WIDE: [&str; 12] = [
    "January", "February", "March", "April", "May", "June", "July", "August", "September",
    "October", "November", "December",
];
pub const WDAY_WIDE: [&str; 7] =
    ["Sunday", "Monday", "Tuesday", "Wednesday", "Thursday", "Friday", "Saturday"];

/// Self-test: A vs B, anchors. Returns Err(description) on any disagreement.
pub fn self_test() -> Result<u64, String> {
    let mut n = 0u64;
    // anchors
    let anchors: [((i64, u32, u32), i64); 6] = [
        ((1, 1, 1), 0),
        ((1970, 1, 1), DAYS_TO_1970),
        ((-1, 12, 31), -1),
        ((2000, 3, 1), 730_179),
        (MAX_YMD, MAX_DAY),
        (MIN_YMD, MIN_DAY),
    ];
    for (ymd, day) in anchors {
        if days_from_ymd(ymd.0, ymd.1, ymd.2) != day {
            return Err(format!("anchor {:?} -> {} != {}", ymd, days_from_ymd(ymd.0, ymd.1, ymd.2), day));
        }
        if ymd_from_days(day) != ymd {
            return Err(format!("anchor day {} -> {:?} != {:?}", day, ymd_from_days(day), ymd));
        }
        n += 2;
    }
    if weekday(DAYS_TO_1970) != 4 || weekday(738_000 + 156) != weekday_b(738_000 + 156) {
        return Err("weekday anchor".into());
    }
    // 2022-05-02 is a Monday, ISO week 18; 2021-01-03 is week 53; 2024-12-30 is week 1
    let chk = |y, m, d, wd, wk| -> Result<(), String> {
        let day = days_from_ymd(y, m, d);
        if weekday(day) != wd || iso_week(day) != wk || iso_week_b(day) != wk {
            return Err(format!("iso anchor {}-{}-{}: wd {} wk {} / {}", y, m, d, weekday(day), iso_week(day), iso_week_b(day)));
        }
        Ok(())
    };
    chk(2022, 5, 2, 1, 18)?;
    chk(2021, 1, 3, 0, 53)?;
    chk(2024, 12, 30, 1, 1)?;
    chk(2020, 12, 31, 4, 53)?;
    chk(2019, 12, 30, 1, 1)?;
    // stepping windows: A vs B for civil, weekday, iso week, month arithmetic
    let windows: [(i64, i64); 6] = [
        (MIN_DAY, MIN_DAY + 3000),
        (MAX_DAY - 3000, MAX_DAY),
        (-800_000, 800_000),
        (-146_097 * 20 - 500, -146_097 * 20 + 500),
        (146_097 * 14_000, 146_097 * 14_000 + 1500),
        (-146_097 * 14_000, -146_097 * 14_000 + 1500),
    ];
    for (lo, hi) in windows {
        let mut cur = ymd_from_days(lo);
        for day in lo..=hi {
            let a = ymd_from_days(day);
            if a != cur {
                return Err(format!("civil A/B differ at day {}: {:?} vs {:?}", day, a, cur));
            }
            if !exists(a.0, a.1, a.2) || days_from_ymd(a.0, a.1, a.2) != day {
                return Err(format!("civil inverse at day {}", day));
            }
            if weekday(day) != weekday_b(day) {
                return Err(format!("weekday A/B differ at day {}", day));
            }
            if iso_week(day) != iso_week_b(day) {
                return Err(format!("iso week A/B differ at day {}: {} vs {}", day, iso_week(day), iso_week_b(day)));
            }
            if day % 97 == 0 {
                for delta in [-50i64, -13, -12, -11, -1, 0, 1, 11, 12, 13, 50] {
                    if add_months(a, delta) != add_months_b(a, delta) {
                        return Err(format!("add_months A/B differ at {:?} {}", a, delta));
                    }
                }
            }
            n += 1;
            if day < hi {
                cur = next_date(cur);
                if prev_date(cur) != a {
                    return Err(format!("prev/next at day {}", day));
                }
            }
        }
    }
    Ok(n)
}
