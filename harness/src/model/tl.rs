//! The time line: i128 nanoseconds since 0001-01-01T00:00:00Z, and local-field views.
use super::cal;

pub const NS: i128 = 1_000_000_000;
pub const DAY_NS: i128 = 86_400 * NS;
pub const MIN_INSTANT: i128 = cal::MIN_DAY as i128 * DAY_NS;
pub const MAX_INSTANT: i128 = cal::MAX_DAY as i128 * DAY_NS + DAY_NS - 1;
pub const EPOCH_1970_S: i64 = cal::DAYS_TO_1970 * 86_400;

pub fn representable(i: i128) -> bool {
    (MIN_INSTANT..=MAX_INSTANT).contains(&i)
}

pub fn unit_ns(unit: u8) -> i128 {
    match unit {
        0 => DAY_NS,
        1 => 3_600 * NS,
        2 => 60 * NS,
        3 => NS,
        4 => 1_000_000,
        5 => 1_000,
        _ => 1,
    }
}
pub const UNIT_NAMES: [&str; 7] = ["days", "hours", "minutes", "seconds", "millis", "micros", "nanos"];

/// calendar/clock fields of an instant read at UTC (apply the offset before calling)
#[derive(Debug, Clone, Copy, PartialEq, Eq)]
pub struct Fields {
    pub day: i64,
    pub year: i64,
    pub month: u32,
    pub dom: u32,
    pub hour: u32,
    pub minute: u32,
    pub second: u32,
    /// nanoseconds within the second
    pub subsec: u32,
    /// nanoseconds within the day
    pub day_ns: i64,
}

pub fn fields(i: i128) -> Fields {
    let day = i.div_euclid(DAY_NS) as i64;
    let day_ns = i.rem_euclid(DAY_NS) as i64;
    let (year, month, dom) = cal::ymd_from_days(day);
    let secs = day_ns / 1_000_000_000;
    Fields {
        day,
        year,
        month,
        dom,
        hour: (secs / 3600) as u32,
        minute: (secs / 60 % 60) as u32,
        second: (secs % 60) as u32,
        subsec: (day_ns % 1_000_000_000) as u32,
        day_ns,
    }
}

pub fn instant_from_fields(day: i64, h: u32, m: u32, s: u32, subsec: u32) -> i128 {
    day as i128 * DAY_NS + (h as i128 * 3600 + m as i128 * 60 + s as i128) * NS + subsec as i128
}

/// truncation toward zero
pub fn trunc_div(a: i128, b: i128) -> i128 {
    a / b
}
