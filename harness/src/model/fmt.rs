//! Reference formatter, written from the symbol tables in the documentation of
//! Date::format / Time::format / DateTime::format (not from src/util/format.rs).
use super::{cal, tl};
use serde::{Deserialize, Serialize};

#[derive(Debug, Clone, Copy, PartialEq, Eq, Hash, Serialize, Deserialize)]
pub enum Kind {
    Date,
    Time,
    DateTime,
}

pub const DATE_SYMS: &[char] = &['G', 'y', 'q', 'M', 'w', 'd', 'D', 'e'];
pub const TIME_SYMS: &[char] = &['a', 'b', 'h', 'H', 'K', 'k', 'm', 's', 'n', 'X', 'x'];

pub fn is_symbol(kind: Kind, c: char) -> bool {
    match kind {
        Kind::Date => DATE_SYMS.contains(&c),
        Kind::Time => TIME_SYMS.contains(&c),
        Kind::DateTime => DATE_SYMS.contains(&c) || TIME_SYMS.contains(&c),
    }
}

#[derive(Debug, Clone, PartialEq, Eq, Hash, Serialize, Deserialize)]
pub enum Tok {
    Field { sym: char, width: usize },
    /// unquoted literal text (no apostrophes, no symbol letters)
    Lit(String),
    /// quoted text '…' (content; an apostrophe inside is written '' in the pattern)
    Quoted(String),
    /// '' outside quotes: one literal apostrophe
    Apostrophe,
}

pub fn pattern_of(toks: &[Tok]) -> String {
    let mut s = String::new();
    for t in toks {
        match t {
            Tok::Field { sym, width } => {
                for _ in 0..*width {
                    s.push(*sym);
                }
            }
            Tok::Lit(l) => s.push_str(l),
            Tok::Quoted(q) => {
                s.push('\'');
                s.push_str(&q.replace('\'', "''"));
                s.push('\'');
            }
            Tok::Apostrophe => s.push_str("''"),
        }
    }
    s
}

/// Tokeniser for well-formed patterns, as the documentation describes them: runs of one
/// symbol letter are a field, '…' is quoted text, '' is an apostrophe, the rest literal.
pub fn tokenize(kind: Kind, pattern: &str) -> Vec<Tok> {
    let cs: Vec<char> = pattern.chars().collect();
    let mut out: Vec<Tok> = Vec::new();
    let mut i = 0;
    while i < cs.len() {
        let c = cs[i];
        if c == '\'' {
            if i + 1 < cs.len() && cs[i + 1] == '\'' {
                out.push(Tok::Apostrophe);
                i += 2;
                continue;
            }
            let mut q = String::new();
            i += 1;
            while i < cs.len() {
                if cs[i] == '\'' {
                    if i + 1 < cs.len() && cs[i + 1] == '\'' {
                        q.push('\'');
                        i += 2;
                        continue;
                    }
                    break;
                }
                q.push(cs[i]);
                i += 1;
            }
            i += 1;
            out.push(Tok::Quoted(q));
        } else if is_symbol(kind, c) {
            let mut w = 0;
            while i < cs.len() && cs[i] == c {
                w += 1;
                i += 1;
            }
            out.push(Tok::Field { sym: c, width: w });
        } else {
            if let Some(Tok::Lit(l)) = out.last_mut() {
                l.push(c);
            } else {
                out.push(Tok::Lit(c.to_string()));
            }
            i += 1;
        }
    }
    out
}

pub const MONTH_ABBR: [&str; 12] = ["Jan", "Feb", "Mar", "Apr", "May", "Jun", "Jul", "Aug", "Sep", "Oct", "Nov", "Dec"];
pub const MONTH_NARROW: [&str; 12] = ["J", "F", "M", "A", "M", "J", "J", "A", "S", "O", "N", "D"];
pub const WD_ABBR: [&str; 7] = ["Sun", "Mon", "Tue", "Wed", "Thu", "Fri", "Sat"];
pub const WD_NARROW: [&str; 7] = ["S", "M", "T", "W", "T", "F", "S"];
pub const WD_SHORT: [&str; 7] = ["Su", "Mo", "Tu", "We", "Th", "Fr", "Sa"];

fn pad(n: u64, width: usize) -> String {
    // by hand: a runtime formatting width above u16::MAX panics
    let d = n.to_string();
    format!("{}{}", "0".repeat(width.saturating_sub(d.len())), d)
}

fn pad_signed(n: i64, width: usize) -> String {
    if n < 0 {
        format!("-{}", pad(n.unsigned_abs(), width))
    } else {
        pad(n as u64, width)
    }
}

fn ordinal(n: u32) -> &'static str {
    match n {
        1 => "1st",
        2 => "2nd",
        3 => "3rd",
        _ => "4th",
    }
}

pub fn zone(width: usize, off: i32, with_z: bool) -> Rendered {
    if with_z && off == 0 {
        return Rendered::Text("Z".into());
    }
    let a = off.unsigned_abs() as u64;
    let (h, m, s) = (a / 3600, a / 60 % 60, a % 60);
    let sign = if off < 0 { "-" } else { "+" };
    // seconds are only shown by widths 4 and 5; what a sub-minute offset looks like in the
    // other widths ("Z"? "+00:00"? "-00:00"?) is not specified
    let w = if width > 5 { 3 } else { width };
    if with_z && a < 60 && !(w == 4 || w == 5) {
        return Rendered::Unspecified("X..XXX for 0 < |offset| < 60 s");
    }
    Rendered::Text(match w {
        1 => {
            if m != 0 {
                format!("{}{:02}{:02}", sign, h, m)
            } else {
                format!("{}{:02}", sign, h)
            }
        }
        2 => format!("{}{:02}{:02}", sign, h, m),
        3 => format!("{}{:02}:{:02}", sign, h, m),
        4 => {
            if s != 0 {
                format!("{}{:02}{:02}{:02}", sign, h, m, s)
            } else {
                format!("{}{:02}{:02}", sign, h, m)
            }
        }
        _ => {
            if s != 0 {
                format!("{}{:02}:{:02}:{:02}", sign, h, m, s)
            } else {
                format!("{}{:02}:{:02}", sign, h, m)
            }
        }
    })
}

#[derive(Debug, Clone, PartialEq)]
pub enum Rendered {
    Text(String),
    Unspecified(&'static str),
}

/// Renders one field. `f` = local fields (offset already applied), `off` = offset seconds.
pub fn render_field(sym: char, width: usize, f: &tl::Fields, off: i32) -> Rendered {
    use Rendered::*;
    let day = f.day;
    Text(match sym {
        'G' => {
            let bc = day < 0;
            match width {
                1..=3 => if bc { "BC" } else { "AD" }.to_string(),
                5 => if bc { "B" } else { "A" }.to_string(),
                _ => if bc { "Before Christ" } else { "Anno Domini" }.to_string(),
            }
        }
        'y' => match width {
            2 => {
                if f.year < 0 && f.year <= -10 {
                    return Unspecified("yy for years <= -10 (sign)");
                }
                if f.year < 0 {
                    pad_signed(f.year, 2)
                } else {
                    pad((f.year % 100) as u64, 2)
                }
            }
            w => pad_signed(f.year, w),
        },
        'q' => {
            let q = cal::quarter(f.month);
            match width {
                1 => format!("{}", q),
                2 => format!("{:02}", q),
                3 => format!("Q{}", q),
                4 => format!("{} quarter", ordinal(q)),
                _ => format!("{}", q),
            }
        }
        'M' => match width {
            1 => format!("{}", f.month),
            2 => format!("{:02}", f.month),
            3 => MONTH_ABBR[f.month as usize - 1].to_string(),
            5 => MONTH_NARROW[f.month as usize - 1].to_string(),
            _ => cal::MONTH_WIDE[f.month as usize - 1].to_string(),
        },
        'w' => {
            let w = cal::iso_week(day);
            if width == 1 {
                format!("{}", w)
            } else {
                format!("{:02}", w)
            }
        }
        'd' => {
            if width == 1 {
                format!("{}", f.dom)
            } else {
                format!("{:02}", f.dom)
            }
        }
        'D' => {
            let d = cal::day_of_year(day);
            match width {
                2 => format!("{:02}", d),
                3 => format!("{:03}", d),
                _ => format!("{}", d),
            }
        }
        'e' => {
            let wd = cal::weekday(day) as usize;
            let mf = (wd + 6) % 7 + 1;
            match width {
                2 => format!("{:02}", wd + 1),
                3 => WD_ABBR[wd].to_string(),
                4 => cal::WDAY_WIDE[wd].to_string(),
                5 => WD_NARROW[wd].to_string(),
                6 => WD_SHORT[wd].to_string(),
                7 => format!("{}", mf),
                8 => format!("{:02}", mf),
                _ => format!("{}", wd + 1),
            }
        }
        'a' | 'b' => {
            let w = if width > 5 { 3 } else { width };
            let secs = f.day_ns / 1_000_000_000;
            if sym == 'b' && (secs == 0 || secs == 43_200) {
                if f.subsec != 0 {
                    return Unspecified("b inside the noon/midnight second with a non-zero sub-second");
                }
                let noon = secs == 43_200;
                return Text(if w == 5 { if noon { "n" } else { "mi" } } else if noon { "noon" } else { "midnight" }.to_string());
            }
            let pm = f.hour >= 12;
            match w {
                1 | 2 => if pm { "PM" } else { "AM" },
                3 => if pm { "pm" } else { "am" },
                4 => if pm { "p.m." } else { "a.m." },
                _ => if pm { "p" } else { "a" },
            }
            .to_string()
        }
        'h' | 'H' | 'K' | 'k' => {
            let v = match sym {
                'h' => if f.hour % 12 == 0 { 12 } else { f.hour % 12 },
                'H' => f.hour,
                'K' => f.hour % 12,
                _ => if f.hour == 0 { 24 } else { f.hour },
            };
            if width == 1 {
                format!("{}", v)
            } else {
                format!("{:02}", v)
            }
        }
        'm' => if width == 1 { format!("{}", f.minute) } else { format!("{:02}", f.minute) },
        's' => if width == 1 { format!("{}", f.second) } else { format!("{:02}", f.second) },
        'n' => {
            let digits = match width {
                1 => 1,
                2 => 2,
                4 => 6,
                5 => 9,
                _ => 3,
            };
            format!("{:0w$}", f.subsec as u64 / 10u64.pow(9 - digits as u32), w = digits)
        }
        'X' => return zone(width, off, true),
        'x' => return zone(width, off, false),
        other => other.to_string().repeat(width),
    })
}

/// Renders a token list. Err(reason) = some field is unspecified for this value.
pub fn render(toks: &[Tok], f: &tl::Fields, off: i32) -> Result<String, &'static str> {
    let mut s = String::new();
    for t in toks {
        match t {
            Tok::Field { sym, width } => match render_field(*sym, *width, f, off) {
                Rendered::Text(t) => s.push_str(&t),
                Rendered::Unspecified(why) => return Err(why),
            },
            Tok::Lit(l) => s.push_str(l),
            Tok::Quoted(q) => s.push_str(q),
            Tok::Apostrophe => s.push('\''),
        }
    }
    Ok(s)
}

/// local fields for a value of the given kind
pub fn local_fields(kind: Kind, day: i64, ns: i64, off: i32) -> tl::Fields {
    match kind {
        Kind::Date => tl::fields(day as i128 * tl::DAY_NS),
        Kind::Time => tl::fields((ns as i128 + off as i128 * tl::NS).rem_euclid(tl::DAY_NS)),
        Kind::DateTime => tl::fields(day as i128 * tl::DAY_NS + ns as i128 + off as i128 * tl::NS),
    }
}

#[derive(Deserialize)]
struct Golden {
    #[serde(rename = "type")]
    ty: String,
    day: i64,
    ns: i64,
    off: i32,
    pattern: String,
    expected: String,
}

/// Self-test: the repository's own format assertions (corpus/format_golden.jsonl) must be
/// reproduced by the reference formatter.
pub fn self_test() -> Result<u64, String> {
    let text = std::fs::read_to_string("/verif/corpus/format_golden.jsonl").map_err(|e| format!("format_golden.jsonl: {}", e))?;
    let mut n = 0;
    for line in text.lines() {
        let g: Golden = serde_json::from_str(line).map_err(|e| e.to_string())?;
        let kind = match g.ty.as_str() {
            "Date" => Kind::Date,
            "Time" => Kind::Time,
            _ => Kind::DateTime,
        };
        let toks = tokenize(kind, &g.pattern);
        let f = local_fields(kind, g.day, g.ns, g.off);
        match render(&toks, &f, g.off) {
            Ok(s) if s == g.expected => n += 1,
            Ok(s) => return Err(format!("reference formatter: {:?} on {:?} gives {:?}, repository test expects {:?}", g.pattern, (g.ty, g.day, g.ns, g.off), s, g.expected)),
            Err(why) => {
                // the model declines to specify: accepted, but counted separately
                let _ = why;
            }
        }
    }
    if n < 350 {
        return Err(format!("only {} golden format assertions reproduced", n));
    }
    Ok(n)
}
