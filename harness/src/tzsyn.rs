//! TZif synthesizer (RFC 8536 section 3 layout) for C18/C19. Valid files only; the C19
//! mutators damage them afterwards.
use crate::engine::UExt;
use crate::model::tz::{self, RuleDay};
use arbitrary::{Result, Unstructured};
use serde::{Deserialize, Serialize};

#[derive(Debug, Clone, Hash, PartialEq, Eq, Serialize, Deserialize)]
pub struct Synth {
    pub version: u8,
    /// (utoff, isdst)
    pub types: Vec<(i32, bool)>,
    /// (time, type index), strictly increasing
    pub transitions: Vec<(i64, u8)>,
    pub v1_populated: bool,
    /// POSIX TZ string (without the enclosing newlines); None for version 1
    pub footer: Option<String>,
    /// emit isstd/isut indicator arrays
    pub indicators: bool,
    /// number of leap-second records in every populated block (the "right/" flavour of the
    /// database; the reader has to step over them: 8 bytes each in the 32-bit block, 12 in the
    /// 64-bit block)
    #[serde(default)]
    pub leaps: u8,
}

fn block(time_size: usize, types: &[(i32, bool)], transitions: &[(i64, u8)], indicators: bool, version_byte: u8, leaps: usize) -> Vec<u8> {
    let mut out = Vec::new();
    let chars = b"LMT\0STD\0DST\0";
    let ind = if indicators { types.len() } else { 0 };
    out.extend_from_slice(b"TZif");
    out.push(version_byte);
    out.extend_from_slice(&[0u8; 15]);
    for v in [ind, ind, leaps, transitions.len(), types.len(), chars.len()] {
        out.extend_from_slice(&(v as u32).to_be_bytes());
    }
    for (t, _) in transitions {
        if time_size == 4 {
            out.extend_from_slice(&(*t as i32).to_be_bytes());
        } else {
            out.extend_from_slice(&t.to_be_bytes());
        }
    }
    for (_, i) in transitions {
        out.push(*i);
    }
    for (k, (utoff, dst)) in types.iter().enumerate() {
        out.extend_from_slice(&utoff.to_be_bytes());
        out.push(*dst as u8);
        out.push(if k == 0 { 0 } else if *dst { 8 } else { 4 });
    }
    out.extend_from_slice(chars);
    for k in 0..leaps {
        let at = 78_796_800i64 + k as i64 * 47_304_000 + k as i64;
        if time_size == 4 {
            out.extend_from_slice(&(at as i32).to_be_bytes());
        } else {
            out.extend_from_slice(&at.to_be_bytes());
        }
        out.extend_from_slice(&(k as i32 + 1).to_be_bytes());
    }
    out.extend(std::iter::repeat(0u8).take(ind)); // isstd
    out.extend(std::iter::repeat(0u8).take(ind)); // isut
    out
}

impl Synth {
    pub fn build(&self) -> Vec<u8> {
        let vb = match self.version {
            1 => 0u8,
            2 => b'2',
            _ => b'3',
        };
        if self.version == 1 {
            return block(4, &self.types, &self.transitions, self.indicators, vb, self.leaps as usize);
        }
        let mut out = if self.v1_populated {
            let t32: Vec<(i64, u8)> = self.transitions.iter().copied().filter(|(t, _)| i32::try_from(*t).is_ok()).collect();
            block(4, &self.types, &t32, self.indicators, vb, self.leaps as usize)
        } else {
            block(4, &[(0, false)], &[], false, vb, 0)
        };
        out.extend(block(8, &self.types, &self.transitions, self.indicators, vb, self.leaps as usize));
        out.push(b'\n');
        out.extend_from_slice(self.footer.as_deref().unwrap_or("").as_bytes());
        out.push(b'\n');
        out
    }
}

fn fmt_off(u: &mut Unstructured, secs: i32, allow_plus: bool) -> Result<String> {
    let a = secs.unsigned_abs();
    let (h, m, s) = (a / 3600, a / 60 % 60, a % 60);
    let sign = if secs < 0 { "-" } else if allow_plus && u.coin(1, 4)? { "+" } else { "" };
    Ok(if s != 0 {
        format!("{}{}:{:02}:{:02}", sign, h, m, s)
    } else if m != 0 || u.coin(1, 5)? {
        format!("{}{}:{:02}", sign, h, m)
    } else if u.coin(1, 4)? {
        format!("{}{:02}", sign, h)
    } else {
        format!("{}{}", sign, h)
    })
}

fn name(u: &mut Unstructured, utoff: i32, fallback: &str) -> Result<String> {
    Ok(if u.coin(1, 3)? {
        let a = utoff.unsigned_abs();
        if a % 3600 == 0 {
            format!("<{}{:02}>", if utoff < 0 { '-' } else { '+' }, a / 3600)
        } else {
            format!("<{}{:02}{:02}>", if utoff < 0 { '-' } else { '+' }, a / 3600, a / 60 % 60)
        }
    } else {
        fallback.to_string()
    })
}

/// a rule day inside month `m` (2..=11: always more than a week away from 1 January)
fn rule_day(u: &mut Unstructured, m: u32) -> Result<(RuleDay, String)> {
    const START: [u32; 13] = [0, 0, 31, 59, 90, 120, 151, 181, 212, 243, 273, 304, 334]; // zero-based day of the 1st, common year
    const LEN: [u32; 13] = [0, 31, 28, 31, 30, 31, 30, 31, 31, 30, 31, 30, 31];
    Ok(match u.below(5)? {
        0 => {
            let n = START[m as usize] + 1 + u.int_in_range(0..=LEN[m as usize] - 1)?;
            (RuleDay::Julian(n), format!("J{}", n))
        }
        1 => {
            let n = START[m as usize] + u.int_in_range(0..=LEN[m as usize] - 1)?;
            (RuleDay::ZeroBased(n), format!("{}", n))
        }
        _ => {
            let w = u.int_in_range(1..=5u32)?;
            let d = u.int_in_range(0..=6u32)?;
            (RuleDay::Mwd(m, w, d), format!("M{}.{}.{}", m, w, d))
        }
    })
}

fn rule_time(u: &mut Unstructured, v3: bool) -> Result<String> {
    Ok(match u.below(6)? {
        0 | 1 => String::new(),
        2 => format!("/{}", u.int_in_range(0..=24i32)?),
        3 => format!("/{}:{:02}", u.int_in_range(0..=23i32)?, u.int_in_range(0..=59i32)?),
        4 => format!("/{}:{:02}:{:02}", u.int_in_range(0..=23i32)?, u.int_in_range(0..=59i32)?, u.int_in_range(0..=59i32)?),
        _ => {
            if v3 {
                // signed time drawn in seconds, so that every sign x magnitude combination
                // occurs, including negative times of less than an hour ("/-0:30", "/-0:00:45")
                let secs = match u.below(3)? {
                    0 => u.int_in_range(-72..=72i32)? * 3600,
                    1 => u.int_in_range(-3_599..=3_599i32)?,
                    _ => u.int_in_range(-72 * 3600..=72 * 3600i32)?,
                };
                format!("/{}", fmt_off(u, secs, false)?)
            } else {
                format!("/{}", u.int_in_range(1..=3i32)?)
            }
        }
    })
}

/// IANA-shaped POSIX TZ string: fixed, or alternating with switch-overs in spring/autumn
pub fn gen_footer(u: &mut Unstructured, v3: bool) -> Result<String> {
    let std_utoff = match u.below(4)? {
        0 => u.int_in_range(-12..=14i32)? * 3600,
        1 => u.int_in_range(-47..=56i32)? * 900,
        2 => *u.choose(&[0i32, 3600, -18_000, 19_800, 20_700, -12_600, 45_900, 34_200])?,
        _ => u.int_in_range(-54_000..=54_000i32)?,
    };
    let std_name = name(u, std_utoff, "STD")?;
    let mut s = format!("{}{}", std_name, fmt_off(u, -std_utoff, true)?);
    if u.coin(1, 4)? {
        return Ok(s);
    }
    let delta = *u.choose(&[3600i32, 3600, 3600, 1800, 7200, -3600])?;
    let dst_utoff = std_utoff + delta;
    s.push_str(&name(u, dst_utoff, "DST")?);
    if delta != 3600 || u.coin(1, 4)? {
        s.push_str(&fmt_off(u, -dst_utoff, false)?);
    }
    // two different months in February..November at least two months apart (either order:
    // northern or southern hemisphere), so the switch-overs are more than a week apart and more
    // than a week from 1 January even with the +-72 h version-3 times
    let m1 = u.int_in_range(2..=11u32)?;
    let mut m2 = u.int_in_range(2..=11u32)?;
    if (m1 as i32 - m2 as i32).abs() < 2 {
        m2 = if m1 <= 6 { m1 + 2 + u.int_in_range(0..=2u32)? } else { m1 - 2 - u.int_in_range(0..=2u32)? };
    }
    let (_, a) = rule_day(u, m1)?;
    let (_, b) = rule_day(u, m2.clamp(2, 11))?;
    s.push_str(&format!(",{}{},{}{}", a, rule_time(u, v3)?, b, rule_time(u, v3)?));
    Ok(s)
}

pub fn gen_synth(u: &mut Unstructured) -> Result<Synth> {
    let version = *u.choose(&[1u8, 2, 2, 3, 3])?;
    let footer = if version == 1 { None } else { Some(gen_footer(u, version == 3)?) };
    let rule = footer.as_ref().map(|f| tz::parse_posix_tz(f, version == 3).expect("generated footer parses in the reference"));
    // types: arbitrary historical ones plus the ones the footer needs
    let mut types: Vec<(i32, bool)> = Vec::new();
    let n_hist = u.int_in_range(1..=4usize)?;
    for _ in 0..n_hist {
        types.push((u.int_in_range(-54_000..=54_000i32)?, u.coin(1, 3)?));
    }
    let mut std_idx = 0u8;
    let mut dst_idx = 0u8;
    if let Some(r) = &rule {
        types.push((r.std_utoff, false));
        std_idx = types.len() as u8 - 1;
        if let Some(d) = &r.dst {
            types.push((d.utoff, true));
            dst_idx = types.len() as u8 - 1;
        }
    }
    // historical prefix
    let mut transitions: Vec<(i64, u8)> = Vec::new();
    let n_prefix = if u.coin(1, 5)? { 0 } else { u.int_in_range(0..=20usize)? };
    let mut t = u.int_in_range(-3_000_000_000i64..=400_000_000)?;
    for _ in 0..n_prefix {
        transitions.push((t, u.int_in_range(0..=types.len() as u8 - 1)?));
        t += u.int_in_range(1..=40_000_000i64)?;
    }
    // a transition time whose bytes spell the format's own magic ("TZif" = 0x545A6966,
    // 2014-11-05T18:16:06Z): a reader that looks for the second header by searching for the
    // magic finds it inside the 32-bit table
    if u.coin(1, 12)? && transitions.last().map(|x| x.0 < 0x545A_6966).unwrap_or(true) {
        transitions.push((0x545A_6966, u.int_in_range(0..=types.len() as u8 - 1)?));
    }
    // tail consistent with the footer
    if let Some(r) = &rule {
        let want_tail = !transitions.is_empty() || u.coin(1, 2)?;
        if want_tail {
            if r.dst.is_some() {
                let last_t = transitions.last().map(|x| x.0).unwrap_or(i64::MIN);
                let y_min = if last_t == i64::MIN { 1950 } else { (1970 + last_t.div_euclid(31_556_952) + 2).clamp(1901, 2400) };
                let y0 = u.int_in_range(y_min..=(y_min + 60).min(2440))?;
                let years = u.int_in_range(1..=10i64)?;
                for y in y0..y0 + years {
                    for (inst, utoff) in r.events(y) {
                        if inst > transitions.last().map(|x| x.0).unwrap_or(i64::MIN) {
                            let idx = if utoff == r.std_utoff { std_idx } else { dst_idx };
                            transitions.push((inst, idx));
                        }
                    }
                }
                // drop a trailing transition sometimes so the table ends in DST
                if transitions.len() > 1 && u.coin(1, 3)? {
                    transitions.pop();
                }
            } else {
                let last_t = transitions.last().map(|x| x.0).unwrap_or(u.int_in_range(-2_000_000_000i64..=1_500_000_000)?);
                transitions.push((last_t + u.int_in_range(1..=40_000_000i64)?, std_idx));
            }
        }
    }
    Ok(Synth { version, types, transitions, v1_populated: version != 1 && u.coin(1, 2)?, footer, indicators: u.coin(1, 2)?, leaps: if u.coin(1, 5)? { u.int_in_range(1..=27u8)? } else { 0 } })
}
