//! CLI used by /verif/check.
//!   vcheck run <ID> <tier> --profile P --seed N --out part.json --fp part.fp
//!   vcheck merge <ID> <tier> --seed N part.json:part.fp ...
//!   vcheck replay <file> --profile P
//!   vcheck selftest
use astrolabe_verif::engine::*;
use astrolabe_verif::{model, obs, props};
use serde::{Deserialize, Serialize};
use std::collections::{BTreeMap, HashSet};
use std::io::{Read, Write};
use std::time::Instant;

#[derive(Serialize, Deserialize, Default)]
struct Part {
    property: String,
    tier: String,
    profile: String,
    seed: u64,
    wall_s: f64,
    evaluations: u64,
    nontrivial: u64,
    nontrivial_by_construction: u64,
    fp_overflow: u64,
    skipped: BTreeMap<String, u64>,
    labels: BTreeMap<String, u64>,
    known: BTreeMap<String, (u64, String)>,
    samples: BTreeMap<String, Vec<serde_json::Value>>,
    violations: Vec<Replay>,
    exhaustive_parts: Vec<String>,
    notes: Vec<String>,
    regressions_replayed: u64,
    inconclusive: Option<String>,
}

fn arg_after(args: &[String], flag: &str) -> Option<String> {
    args.iter().position(|a| a == flag).and_then(|i| args.get(i + 1).cloned())
}

fn replay_regressions(env: &mut Env, id: &str) -> u64 {
    let dir = format!("/verif/regressions/{}", id);
    let mut n = 0;
    let mut files: Vec<_> = match std::fs::read_dir(&dir) {
        Ok(rd) => rd.filter_map(|e| e.ok()).map(|e| e.path()).collect(),
        Err(_) => return 0,
    };
    files.sort();
    for f in files {
        if f.extension().map(|e| e != "json").unwrap_or(true) {
            continue;
        }
        let Ok(text) = std::fs::read_to_string(&f) else { continue };
        let Ok(rep) = serde_json::from_str::<Replay>(&text) else {
            env.notes.push(format!("unreadable regression file {}", f.display()));
            continue;
        };
        let Some(func) = env.registry.get(rep.check.as_str()).copied() else {
            env.notes.push(format!("regression {} names unknown check {}", f.display(), rep.check));
            continue;
        };
        n += 1;
        match func(&rep.case, &rep.before) {
            Ok((Verdict::Fail(fl), _)) => {
                if env.is_known(&fl.sig).is_none() {
                    env.violations.push(Replay {
                        property: id.to_string(),
                        check: rep.check.clone(),
                        profile: env.profile.clone(),
                        seed: 0,
                        case: rep.case.clone(),
                        expected: fl.expected,
                        actual: fl.actual,
                        signature: fl.sig,
                        shrunk: true,
                        before: rep.before.clone(),
                        concurrent_with: Vec::new(),
                    });
                }
            }
            Ok(_) => {}
            Err(e) => env.notes.push(format!("regression {} does not deserialise: {}", f.display(), e)),
        }
    }
    n
}

fn cmd_run(args: &[String]) -> i32 {
    let id = args[0].clone();
    let tier = args[1].clone();
    let profile = arg_after(args, "--profile").unwrap_or_else(|| "checked".into());
    let seed: u64 = arg_after(args, "--seed").and_then(|s| s.parse().ok()).unwrap_or(0);
    let out = arg_after(args, "--out").expect("--out");
    let fp = arg_after(args, "--fp").expect("--fp");
    let t0 = Instant::now();
    let mut part = Part { property: id.clone(), tier: tier.clone(), profile: profile.clone(), seed, ..Default::default() };

    install_panic_hook();
    // instrument + model self-tests (exit 2 on failure: never a VIOLATION)
    let model_ok = model::cal::self_test();
    if let Err(e) = &model_ok {
        part.inconclusive = Some(format!("model self-test failed: {}", e));
    }
    if !["C01", "C03", "C04"].contains(&id.as_str()) {
        if let Err(e) = obs::self_test() {
            part.inconclusive = Some(format!("instrument self-test failed (see C01/C03/C04): {}", e));
        }
    }
    if part.inconclusive.is_none() {
        let mut env = Env::new(&id, &tier, &profile, seed);
        // register sub-checks, replay regression inputs first
        env.register_only = true;
        if !props::run(&id, &mut env) {
            eprintln!("unknown property {}", id);
            return 2;
        }
        env.register_only = false;
        part.regressions_replayed = replay_regressions(&mut env, &id);
        if env.violations.is_empty() {
            props::run(&id, &mut env);
        }
        let st = std::mem::take(&mut env.stats);
        part.evaluations = st.evaluations;
        part.nontrivial = st.nontrivial;
        part.nontrivial_by_construction = st.nontrivial_by_construction;
        part.fp_overflow = st.fp_overflow;
        part.skipped = st.skipped.iter().map(|(k, v)| (k.to_string(), *v)).collect();
        part.labels = st.labels.iter().map(|(k, v)| (k.to_string(), *v)).collect();
        part.known = st.known.clone();
        part.samples = st.samples.iter().map(|((a, b), v)| (format!("{}:{}", a, b), v.clone())).collect();
        part.violations = env.violations.clone();
        part.exhaustive_parts = env.exhaustive_parts.clone();
        part.notes = env.notes.clone();
        let mut f = std::io::BufWriter::new(std::fs::File::create(&fp).expect("fp file"));
        for v in &st.fps {
            f.write_all(&v.to_le_bytes()).unwrap();
        }
    } else {
        std::fs::write(&fp, b"").ok();
    }
    part.wall_s = t0.elapsed().as_secs_f64();
    std::fs::write(&out, serde_json::to_string(&part).unwrap()).expect("write part");
    0
}

fn cmd_merge(args: &[String]) -> i32 {
    let id = args[0].clone();
    let tier = args[1].clone();
    let seed: u64 = arg_after(args, "--seed").and_then(|s| s.parse().ok()).unwrap_or(0);
    let wall: f64 = arg_after(args, "--wall").and_then(|s| s.parse().ok()).unwrap_or(0.0);
    let mut parts: Vec<Part> = Vec::new();
    let mut fps: HashSet<u64> = HashSet::new();
    for a in args.iter().skip(2) {
        if let Some((pj, pf)) = a.split_once(':') {
            if !pj.ends_with(".json") {
                continue;
            }
            let Ok(text) = std::fs::read_to_string(pj) else {
                println!("INCONCLUSIVE property={} missing part {}", id, pj);
                return 2;
            };
            let Ok(p) = serde_json::from_str::<Part>(&text) else {
                println!("INCONCLUSIVE property={} unreadable part {}", id, pj);
                return 2;
            };
            parts.push(p);
            let mut buf = Vec::new();
            if let Ok(mut f) = std::fs::File::open(pf) {
                f.read_to_end(&mut buf).ok();
            }
            for ch in buf.chunks_exact(8) {
                fps.insert(u64::from_le_bytes(ch.try_into().unwrap()));
            }
        }
    }
    if parts.is_empty() {
        println!("INCONCLUSIVE property={} no parts", id);
        return 2;
    }
    for p in &parts {
        if let Some(why) = &p.inconclusive {
            println!("INCONCLUSIVE property={} profile={} {}", id, p.profile, why);
            return 2;
        }
    }
    let fuzz: Option<serde_json::Value> = arg_after(args, "--fuzz-json").and_then(|f| std::fs::read_to_string(f).ok()).and_then(|t| serde_json::from_str(&t).ok());
    let fuzz_execs: u64 = fuzz.as_ref().and_then(|f| f.get("executions")).and_then(|v| v.as_u64()).unwrap_or(0);
    let fuzz_nt: u64 = fuzz.as_ref().and_then(|f| f.get("distinct_nontrivial_in_final_corpus")).and_then(|v| v.as_u64()).unwrap_or(0);
    let evaluations: u64 = parts.iter().map(|p| p.evaluations).sum::<u64>() + fuzz_execs;
    let by_constr: u64 = parts.iter().map(|p| p.nontrivial_by_construction).max().unwrap_or(0);
    let distinct = fps.len() as u64 + by_constr + fuzz_nt;
    let mut labels: BTreeMap<String, u64> = BTreeMap::new();
    let mut skipped: BTreeMap<String, u64> = BTreeMap::new();
    let mut known: BTreeMap<String, (u64, String)> = BTreeMap::new();
    let mut samples: Vec<serde_json::Value> = Vec::new();
    let mut seen_sample_keys: HashSet<String> = HashSet::new();
    let mut exhaustive_parts: Vec<String> = Vec::new();
    let mut notes: Vec<String> = Vec::new();
    let mut per_profile = serde_json::Map::new();
    let mut violations: Vec<Replay> = Vec::new();
    for p in &parts {
        for (k, v) in &p.labels {
            *labels.entry(k.clone()).or_default() += v;
        }
        for (k, v) in &p.skipped {
            *skipped.entry(k.clone()).or_default() += v;
        }
        for (k, v) in &p.known {
            let e = known.entry(k.clone()).or_insert((0, v.1.clone()));
            e.0 += v.0;
        }
        for (k, v) in &p.samples {
            if seen_sample_keys.insert(k.clone()) {
                if let Some(first) = v.first() {
                    samples.push(serde_json::json!({"check_label": k, "case": first}));
                }
            }
        }
        for e in &p.exhaustive_parts {
            if !exhaustive_parts.contains(e) {
                exhaustive_parts.push(e.clone());
            }
        }
        for n in &p.notes {
            notes.push(format!("[{}] {}", p.profile, n));
        }
        per_profile.insert(
            p.profile.clone(),
            serde_json::json!({
                "evaluations": p.evaluations,
                "nontrivial": p.nontrivial,
                "nontrivial_by_construction": p.nontrivial_by_construction,
                "fingerprints_dropped_over_cap": p.fp_overflow,
                "regressions_replayed": p.regressions_replayed,
                "wall_s": p.wall_s,
            }),
        );
        violations.extend(p.violations.iter().cloned());
    }
    samples.truncate(60);
    if samples.is_empty() {
        samples.push(serde_json::json!("no case recorded"));
    }
    // known findings listed for this property
    let known_file: Vec<KnownEntry> = std::fs::read_to_string("/verif/known_findings.json")
        .ok()
        .and_then(|s| serde_json::from_str::<KnownFile>(&s).ok())
        .map(|k| k.entries)
        .unwrap_or_default();
    let mut known_out = serde_json::Map::new();
    for k in known_file.iter().filter(|k| k.status == "known" && k.property == id) {
        let n = known.get(&k.signature).map(|v| v.0).unwrap_or(0);
        println!("KNOWN-FINDING: property={} {} [signature={} observed={}]", id, k.what, k.signature, n);
        known_out.insert(k.signature.clone(), serde_json::json!({"what": k.what, "observed": n}));
    }
    // replay files for violations
    let mut exit = 0;
    let evdir_r = std::env::var("VERIF_EVIDENCE_DIR").unwrap_or_else(|_| "/verif/evidence".to_string());
    std::fs::create_dir_all(format!("{}/replays", evdir_r)).ok();
    let mut printed: HashSet<String> = HashSet::new();
    for v in &violations {
        let text = serde_json::to_string_pretty(v).unwrap();
        let h = fingerprint("replay", &format!("{}{}", v.check, v.case));
        let path = format!("{}/replays/{}-{:016x}.json", evdir_r, id, h);
        if printed.insert(path.clone()) {
            std::fs::write(&path, text).ok();
            println!("VIOLATION property={} replay={}", id, path);
            println!("  check={} profile={} signature={:?}", v.check, v.profile, v.signature);
            if !v.before.is_empty() {
                println!("  judged before it on the same thread: {}", serde_json::Value::Array(v.before.clone()));
            }
            if !v.concurrent_with.is_empty() {
                println!("  judged at the same time on the other threads: {}", serde_json::Value::Array(v.concurrent_with.clone()));
            }
            println!("  case={}", v.case);
            println!("  expected: {}", v.expected);
            println!("  actual:   {}", v.actual);
        }
        exit = 1;
    }
    let exhaustive = !exhaustive_parts.is_empty();
    let evidence = serde_json::json!({
        "property_id": id,
        "tier": tier,
        "seed": seed,
        "level": "exploration",
        "coverage": {
            "evaluations": evaluations,
            "distinct_nontrivial": distinct,
            "rule": props::rule(&id),
            "samples": samples,
            "exhaustive": exhaustive,
            "exhaustive_parts": exhaustive_parts,
            "distinct_counting": "64-bit fingerprints of non-trivial generated cases, union over both arithmetic profiles (capped at 8M per run), plus non-trivial cases of complete enumerations counted by construction (each visited once; max over profiles)",
            "labels": labels,
            "skipped_unspecified": skipped,
            "known_findings": known_out,
            "per_profile": per_profile,
            "fuzz": fuzz,
            "notes": notes,
        },
        "assumptions": props::assumptions(&id),
        "wall_s": wall.max(parts.iter().map(|p| p.wall_s).sum()),
        "violations": violations.len(),
    });
    let evdir = std::env::var("VERIF_EVIDENCE_DIR").unwrap_or_else(|_| "/verif/evidence".to_string());
    std::fs::create_dir_all(&evdir).ok();
    std::fs::write(format!("{}/{}.json", evdir, id), serde_json::to_string_pretty(&evidence).unwrap()).expect("evidence");
    if exit == 0 {
        println!(
            "OK property={} tier={} evaluations={} distinct_nontrivial={} known_hits={}",
            id,
            tier,
            evaluations,
            distinct,
            known.values().map(|v| v.0).sum::<u64>()
        );
    }
    exit
}

fn cmd_replay(args: &[String]) -> i32 {
    let file = &args[0];
    let profile = arg_after(args, "--profile").unwrap_or_else(|| "checked".into());
    let text = match std::fs::read_to_string(file) {
        Ok(t) => t,
        Err(e) => {
            eprintln!("cannot read {}: {}", file, e);
            return 2;
        }
    };
    let rep: Replay = match serde_json::from_str(&text) {
        Ok(r) => r,
        Err(e) => {
            eprintln!("not a replay file: {}", e);
            return 2;
        }
    };
    let mut env = Env::new(&rep.property, "quick", &profile, 0);
    env.register_only = true;
    props::run(&rep.property, &mut env);
    let Some(func) = env.registry.get(rep.check.as_str()).copied() else {
        eprintln!("unknown check {}", rep.check);
        return 2;
    };
    if !rep.concurrent_with.is_empty() {
        // a failure that needs other threads: judge the whole group concurrently again
        let Some(cf) = env.contend_registry.get(rep.check.as_str()).copied() else { return 2 };
        let mut group = vec![rep.case.clone()];
        group.extend(rep.concurrent_with.iter().cloned());
        return match cf(&group, env.threads, 3_000) {
            Ok(Some((idx, f))) => {
                println!("VIOLATION property={} replay={}", rep.property, file);
                println!("  profile={} signature={:?} (member #{} of the group, judged concurrently on {} threads)", profile, f.sig, idx, env.threads);
                println!("  expected: {}", f.expected);
                println!("  actual:   {}", f.actual);
                1
            }
            Ok(None) => {
                println!("PASS profile={} (group of {} judged 3000 times on {} threads)", profile, group.len(), env.threads);
                0
            }
            Err(e) => {
                eprintln!("case does not deserialise: {}", e);
                2
            }
        };
    }
    match func(&rep.case, &rep.before) {
        Ok((Verdict::Fail(f), _)) => {
            if let Some(k) = env.is_known(&f.sig) {
                println!("KNOWN-FINDING: property={} {} [signature={}]", rep.property, k.what, k.signature);
                return 0;
            }
            println!("VIOLATION property={} replay={}", rep.property, file);
            println!("  profile={} signature={:?}", profile, f.sig);
            println!("  expected: {}", f.expected);
            println!("  actual:   {}", f.actual);
            1
        }
        Ok((Verdict::Skip(w), _)) => {
            println!("SKIP ({}) profile={}", w, profile);
            0
        }
        Ok((Verdict::Pass, labels)) => {
            println!("PASS profile={} labels={:?}", profile, labels);
            0
        }
        Err(e) => {
            eprintln!("case does not deserialise: {}", e);
            2
        }
    }
}

fn cmd_selftest() -> i32 {
    install_panic_hook();
    match model::cal::self_test() {
        Ok(n) => println!("model self-test ok ({} comparisons)", n),
        Err(e) => {
            println!("model self-test FAILED: {}", e);
            return 2;
        }
    }
    match props::model_self_tests() {
        Ok(n) => println!("extended model self-tests ok ({} comparisons)", n),
        Err(e) => {
            println!("extended model self-test FAILED: {}", e);
            return 2;
        }
    }
    0
}

fn cmd_fuzz_decode(args: &[String]) -> i32 {
    let (target, file) = (&args[0], &args[1]);
    let Ok(data) = std::fs::read(file) else { return 2 };
    match astrolabe_verif::fuzz::decode(target, &data) {
        Some((property, check, case)) => {
            let rep = Replay { property, check, profile: "fuzz".into(), seed: 0, case, expected: String::new(), actual: format!("libFuzzer artifact {}", file), signature: String::new(), shrunk: false, before: Vec::new(), concurrent_with: Vec::new() };
            println!("{}", serde_json::to_string_pretty(&rep).unwrap());
            0
        }
        None => 2,
    }
}

/// judges every file of a (final) fuzz corpus with the target's body: counts distinct non-trivial
/// inputs and reports failures; prints one JSON object
fn cmd_fuzz_corpus(args: &[String]) -> i32 {
    install_panic_hook();
    let (target, dir) = (&args[0], &args[1]);
    let known: Vec<KnownEntry> = std::fs::read_to_string("/verif/known_findings.json")
        .ok()
        .and_then(|s| serde_json::from_str::<KnownFile>(&s).ok())
        .map(|k| k.entries)
        .unwrap_or_default();
    let mut files = 0u64;
    let mut fps: HashSet<u64> = HashSet::new();
    let mut failures = Vec::new();
    if let Ok(rd) = std::fs::read_dir(dir) {
        for e in rd.filter_map(|e| e.ok()) {
            let Ok(data) = std::fs::read(e.path()) else { continue };
            files += 1;
            if let Some((fp, f)) = astrolabe_verif::fuzz::judge_saved(target, &data) {
                if let Some(fp) = fp {
                    fps.insert(fp);
                }
                if let Some(f) = f {
                    if !known.iter().any(|k| k.status == "known" && !f.sig.is_empty() && k.signature == f.sig) && failures.len() < 5 {
                        failures.push(serde_json::json!({"file": e.path().display().to_string(), "signature": f.sig, "expected": f.expected, "actual": f.actual}));
                    }
                }
            }
        }
    }
    println!("{}", serde_json::json!({"files": files, "distinct_nontrivial": fps.len(), "failures": failures}));
    0
}

fn main() {
    let args: Vec<String> = std::env::args().skip(1).collect();
    let code = match args.first().map(|s| s.as_str()) {
        Some("run") => cmd_run(&args[1..]),
        Some("merge") => cmd_merge(&args[1..]),
        Some("replay") => cmd_replay(&args[1..]),
        Some("selftest") => cmd_selftest(),
        Some("fuzz-decode") => cmd_fuzz_decode(&args[1..]),
        Some("fuzz-corpus") => cmd_fuzz_corpus(&args[1..]),
        _ => {
            eprintln!("usage: vcheck run|merge|replay|selftest ...");
            2
        }
    };
    std::process::exit(code);
}
