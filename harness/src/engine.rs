//! Runner shared by all properties: seeds, parallel proptest drivers over byte-decoded
//! cases, enumerators, classification counters, shrinking, replay files, evidence.
//!
//! One generator per sub-check: `gen(&mut Unstructured) -> Case`. The same decoder is
//! driven by (a) proptest (`vec(any::<u8>(), LEN)`, seeded, shrinking on the bytes),
//! (b) libFuzzer (raw bytes), (c) saved replay files (the decoded case itself).

use arbitrary::Unstructured;
use proptest::test_runner::{Config, RngAlgorithm, RngSeed, TestCaseError, TestError, TestRunner};
use serde::{de::DeserializeOwned, Deserialize, Serialize};
use std::cell::RefCell;
use std::collections::{BTreeMap, HashSet};
use std::hash::{Hash, Hasher};
use std::panic::{catch_unwind, AssertUnwindSafe};
use std::sync::atomic::{AtomicBool, Ordering};
use std::sync::Mutex;

// ------------------------------------------------------------------------------------
// Panic capture
// ------------------------------------------------------------------------------------

#[derive(Debug, Clone, Serialize, Deserialize, PartialEq, Eq)]
pub struct PanicInfo {
    pub msg: String,
    pub file: String,
    pub line: u32,
}

impl PanicInfo {
    pub fn short(&self) -> String {
        format!("panic: {} @ {}:{}", self.msg, self.file, self.line)
    }
    /// file + message with all digits collapsed: stable key for "same root cause".
    pub fn key(&self) -> String {
        let mut m = String::new();
        let mut last_digit = false;
        for c in self.msg.chars() {
            if c.is_ascii_digit() {
                if !last_digit {
                    m.push('N');
                }
                last_digit = true;
            } else {
                last_digit = false;
                m.push(c);
            }
        }
        if m.len() > 80 {
            let mut cut = 80;
            while !m.is_char_boundary(cut) {
                cut -= 1;
            }
            m.truncate(cut);
        }
        format!("{}:{}", self.file, m)
    }
}

thread_local! {
    static LAST_PANIC: RefCell<Option<PanicInfo>> = const { RefCell::new(None) };
    /// depth of `catch` calls on this thread: a panic outside of them is a harness bug and is printed
    static IN_CATCH: std::cell::Cell<u32> = const { std::cell::Cell::new(0) };
}

pub fn install_panic_hook() {
    static ONCE: std::sync::Once = std::sync::Once::new();
    ONCE.call_once(|| {
        std::panic::set_hook(Box::new(|info| {
            let msg = if let Some(s) = info.payload().downcast_ref::<&str>() {
                s.to_string()
            } else if let Some(s) = info.payload().downcast_ref::<String>() {
                s.clone()
            } else {
                "<non-string panic>".to_string()
            };
            let (file, line) = info
                .location()
                .map(|l| (l.file().to_string(), l.line()))
                .unwrap_or_default();
            if IN_CATCH.with(|c| c.get()) == 0 {
                eprintln!("harness panic outside catch(): {} @ {}:{}", msg, file, line);
            }
            LAST_PANIC.with(|p| *p.borrow_mut() = Some(PanicInfo { msg, file, line }));
        }));
    });
}

/// Runs `f`, returning `Err(PanicInfo)` if it panicked.
pub fn catch<T>(f: impl FnOnce() -> T) -> Result<T, PanicInfo> {
    LAST_PANIC.with(|p| *p.borrow_mut() = None);
    IN_CATCH.with(|c| c.set(c.get() + 1));
    let r = catch_unwind(AssertUnwindSafe(f));
    IN_CATCH.with(|c| c.set(c.get().saturating_sub(1)));
    match r {
        Ok(v) => Ok(v),
        Err(_) => Err(LAST_PANIC.with(|p| p.borrow_mut().take()).unwrap_or(PanicInfo {
            msg: "<unknown>".into(),
            file: String::new(),
            line: 0,
        })),
    }
}

// ------------------------------------------------------------------------------------
// Calls that do not return
// ------------------------------------------------------------------------------------
// Every property says what a call *returns*; a call that never returns breaks it just as a wrong
// value does, but cannot be observed from inside the thread that is stuck. Each worker publishes
// the case it is judging; a monitor thread (started when VERIF_HANG_FILE is set, i.e. by ./check)
// writes the case that has been running for more than VERIF_HANG_SECS (default 45; typical cases
// take microseconds) as a replay file and ends the process with exit code 3. ./check then replays
// that single case in a fresh process under its own, longer limit before it reports anything:
// still not returning => VIOLATION, returning => exit 2 (the machine was slow).

struct Slot {
    since: std::time::Instant,
    check: &'static str,
    case: Box<dyn Fn() -> serde_json::Value + Send>,
}

const N_SLOTS: usize = 256;
static SLOTS: std::sync::OnceLock<Vec<Mutex<Option<Slot>>>> = std::sync::OnceLock::new();
static NEXT_WORKER: std::sync::atomic::AtomicUsize = std::sync::atomic::AtomicUsize::new(0);
thread_local! {
    static WORKER: usize = NEXT_WORKER.fetch_add(1, Ordering::Relaxed) % N_SLOTS;
}

fn slots() -> &'static Vec<Mutex<Option<Slot>>> {
    SLOTS.get_or_init(|| (0..N_SLOTS).map(|_| Mutex::new(None)).collect())
}

/// runs `f` while the case is published to the hang monitor
fn watched<P: Prop, T>(case: &P::Case, f: impl FnOnce() -> T) -> T {
    let w = WORKER.with(|w| *w);
    {
        let c2 = case.clone();
        let slot = Slot { since: std::time::Instant::now(), check: P::NAME, case: Box::new(move || serde_json::to_value(&c2).unwrap_or(serde_json::Value::Null)) };
        if let Ok(mut g) = slots()[w].lock() {
            *g = Some(slot);
        }
    }
    let r = f();
    // pins a check may have left behind (obs::mk_dt_off_pin) end with the case
    crate::obs::unpin_local();
    if let Ok(mut g) = slots()[w].lock() {
        *g = None;
    }
    r
}

fn start_hang_monitor(property: String, profile: String) {
    static ONCE: std::sync::Once = std::sync::Once::new();
    let Ok(file) = std::env::var("VERIF_HANG_FILE") else { return };
    let limit: f64 = std::env::var("VERIF_HANG_SECS").ok().and_then(|s| s.parse().ok()).unwrap_or(45.0);
    ONCE.call_once(move || {
        std::thread::spawn(move || loop {
            std::thread::sleep(std::time::Duration::from_millis(500));
            for m in slots().iter() {
                let Ok(g) = m.lock() else { continue };
                if let Some(slot) = g.as_ref() {
                    let secs = slot.since.elapsed().as_secs_f64();
                    if secs > limit {
                        let rep = Replay {
                            property: property.clone(),
                            check: slot.check.to_string(),
                            profile: profile.clone(),
                            seed: 0,
                            case: (slot.case)(),
                            expected: "every call this case makes into the crate returns (a value, an error or a panic)".to_string(),
                            actual: format!("still running after {:.0} s", secs),
                            signature: format!("{}.does_not_return", property.to_lowercase()),
                            shrunk: false,
                            before: Vec::new(),
                            concurrent_with: Vec::new(),
                        };
                        std::fs::write(&file, serde_json::to_string_pretty(&rep).unwrap_or_default()).ok();
                        std::process::exit(3);
                    }
                }
            }
        });
    });
}

// ------------------------------------------------------------------------------------
// Verdicts and per-case context
// ------------------------------------------------------------------------------------

#[derive(Debug, Clone)]
pub struct Failure {
    /// computed signature ("" = none); only used to match `known_findings.json`
    pub sig: String,
    pub expected: String,
    pub actual: String,
}

#[derive(Debug, Clone)]
pub enum Verdict {
    Pass,
    /// input outside what the property quantifies over / unspecified: counted, not judged
    Skip(&'static str),
    Fail(Failure),
}

pub fn fail(sig: &str, expected: impl Into<String>, actual: impl Into<String>) -> Verdict {
    Verdict::Fail(Failure { sig: sig.to_string(), expected: expected.into(), actual: actual.into() })
}

#[macro_export]
macro_rules! ensure_eq {
    ($sig:expr, $what:expr, $exp:expr, $act:expr) => {{
        let e = $exp;
        let a = $act;
        if e != a {
            return $crate::engine::fail($sig, format!("{} = {:?}", $what, e), format!("{:?}", a));
        }
    }};
}

#[derive(Default)]
pub struct Cx {
    pub labels: Vec<&'static str>,
    pub nontrivial: bool,
    /// additional evaluations performed inside this case (row / history cases)
    pub extra_evals: u64,
    /// additional distinct non-trivial sub-cases inside this case (counted by construction)
    pub extra_nontrivial: u64,
}

impl Cx {
    pub fn label(&mut self, l: &'static str) {
        if !self.labels.contains(&l) {
            self.labels.push(l);
        }
    }
    /// label that also marks the case as non-trivial
    pub fn nt(&mut self, l: &'static str) {
        self.label(l);
        self.nontrivial = true;
    }
}

pub trait Prop: Sync + Send + 'static {
    type Case: Serialize + DeserializeOwned + std::fmt::Debug + Clone + Hash + Send + Sync;
    /// e.g. "C04.dt_units"
    const NAME: &'static str;
    /// number of random bytes handed to `gen` by the proptest driver
    const BYTES: usize = 64;
    /// one generated case in `SIBLING_EVERY` is followed by a *sibling* (the same generator input
    /// with one or two bytes changed, i.e. the same case with one or two choices drawn again) and
    /// then judged a second time: the answers of the crate may not depend on what was asked before
    /// (0 = never)
    const SIBLING_EVERY: u64 = 4;
    /// contention pass after the random search: this many small groups of related cases (a case,
    /// a sibling, and the case with one integer component moved by a multiple of a power of two)
    /// are each judged `CONTENTION_ITERS` times by all worker threads at the same time (0 = none)
    const CONTENTION_GROUPS: u64 = 32;
    const CONTENTION_ITERS: u64 = 20_000;
    fn gen(u: &mut Unstructured<'_>) -> arbitrary::Result<Self::Case>;
    fn check(case: &Self::Case, cx: &mut Cx) -> Verdict;
}

pub fn fingerprint<T: Hash>(name: &str, t: &T) -> u64 {
    #[allow(deprecated)]
    let mut h = std::hash::SipHasher::new();
    name.hash(&mut h);
    t.hash(&mut h);
    h.finish()
}

// ------------------------------------------------------------------------------------
// Statistics
// ------------------------------------------------------------------------------------

pub const FP_CAP: usize = 8_000_000;
const SAMPLES_PER_LABEL: usize = 2;

#[derive(Default)]
pub struct FastStats {
    pub evaluations: u64,
    pub nontrivial: u64,
}

#[derive(Default)]
pub struct Stats {
    pub evaluations: u64,
    pub nontrivial: u64,
    pub skipped: BTreeMap<&'static str, u64>,
    pub labels: BTreeMap<&'static str, u64>,
    pub known: BTreeMap<String, (u64, String)>,
    pub fps: HashSet<u64>,
    pub fp_overflow: u64,
    /// non-trivial cases counted by construction (complete enumerations, each case once)
    pub nontrivial_by_construction: u64,
    pub samples: BTreeMap<(&'static str, &'static str), Vec<serde_json::Value>>,
}

impl Stats {
    fn merge(&mut self, o: Stats) {
        self.evaluations += o.evaluations;
        self.nontrivial += o.nontrivial;
        self.nontrivial_by_construction += o.nontrivial_by_construction;
        self.fp_overflow += o.fp_overflow;
        for (k, v) in o.skipped {
            *self.skipped.entry(k).or_default() += v;
        }
        for (k, v) in o.labels {
            *self.labels.entry(k).or_default() += v;
        }
        for (k, v) in o.known {
            let e = self.known.entry(k).or_insert((0, v.1.clone()));
            e.0 += v.0;
        }
        for f in o.fps {
            if self.fps.len() < FP_CAP {
                self.fps.insert(f);
            } else {
                self.fp_overflow += 1;
            }
        }
        for (k, v) in o.samples {
            let e = self.samples.entry(k).or_default();
            for s in v {
                if e.len() < SAMPLES_PER_LABEL {
                    e.push(s);
                }
            }
        }
    }

    pub fn record<P: Prop>(&mut self, case: &P::Case, cx: &Cx, verdict: &Verdict) {
        self.evaluations += 1 + cx.extra_evals;
        self.nontrivial_by_construction += cx.extra_nontrivial;
        if let Verdict::Skip(why) = verdict {
            *self.skipped.entry(why).or_default() += 1;
            return;
        }
        for l in &cx.labels {
            *self.labels.entry(l).or_default() += 1;
            let key = (P::NAME, *l);
            let need = self.samples.get(&key).map(|v| v.len()).unwrap_or(0) < SAMPLES_PER_LABEL;
            if need {
                if let Ok(v) = serde_json::to_value(case) {
                    self.samples.entry(key).or_default().push(v);
                }
            }
        }
        if cx.labels.is_empty() {
            let key = (P::NAME, "plain");
            if self.samples.get(&key).map(|v| v.len()).unwrap_or(0) < 1 {
                if let Ok(v) = serde_json::to_value(case) {
                    self.samples.entry(key).or_default().push(v);
                }
            }
        }
        if cx.nontrivial {
            self.nontrivial += 1;
            if self.fps.len() < FP_CAP {
                self.fps.insert(fingerprint(P::NAME, case));
            } else {
                self.fp_overflow += 1;
            }
        }
    }
}

// ------------------------------------------------------------------------------------
// Known findings
// ------------------------------------------------------------------------------------

#[derive(Debug, Deserialize)]
pub struct KnownEntry {
    pub status: String,
    pub property: String,
    #[serde(default)]
    pub signature: String,
    #[serde(default)]
    pub what: String,
}

#[derive(Debug, Deserialize)]
pub struct KnownFile {
    pub entries: Vec<KnownEntry>,
}

// ------------------------------------------------------------------------------------
// Violations / replays
// ------------------------------------------------------------------------------------

#[derive(Debug, Clone, Serialize, Deserialize)]
pub struct Replay {
    pub property: String,
    pub check: String,
    pub profile: String,
    pub seed: u64,
    pub case: serde_json::Value,
    pub expected: String,
    pub actual: String,
    pub signature: String,
    pub shrunk: bool,
    /// cases of the same sub-check judged on the same thread directly before `case` (history
    /// independence: the verdict of `case` must not depend on them); empty for ordinary cases
    #[serde(default, skip_serializing_if = "Vec::is_empty")]
    pub before: Vec<serde_json::Value>,
    /// cases of the same sub-check that all worker threads were judging at the same time as `case`
    /// (state shared between threads); the replay judges the whole group concurrently again
    #[serde(default, skip_serializing_if = "Vec::is_empty")]
    pub concurrent_with: Vec<serde_json::Value>,
}

pub type ContendFn = fn(&[serde_json::Value], usize, u64) -> Result<Option<(usize, Failure)>, String>;

/// all `threads` judge every case of the group `iters` times, each thread starting at another
/// member; the first failure (index into the group) is returned
fn hammer<P: Prop>(group: &[P::Case], threads: usize, iters: u64) -> Option<(usize, Failure)> {
    hammer_groups::<P>(&[(group.to_vec(), iters)], threads).map(|(_, i, f)| (i, f))
}

/// `threads` workers are started once and walk through the groups in lock-step (a barrier before
/// every group), so that all of them are judging members of the same group at the same time.
/// Returns (group index, member index, failure) of the first failure.
fn hammer_groups<P: Prop>(groups: &[(Vec<P::Case>, u64)], threads: usize) -> Option<(usize, usize, Failure)> {
    let threads = threads.max(2);
    let stop = AtomicBool::new(false);
    let found: Mutex<Option<(usize, usize, Failure)>> = Mutex::new(None);
    let barrier = std::sync::Barrier::new(threads);
    std::thread::scope(|s| {
        for t in 0..threads {
            let (stop, found, barrier) = (&stop, &found, &barrier);
            s.spawn(move || {
                for (gi, (group, iters)) in groups.iter().enumerate() {
                    barrier.wait();
                    if stop.load(Ordering::Relaxed) {
                        continue;
                    }
                    'group: for it in 0..*iters {
                        for k in 0..group.len() {
                            if stop.load(Ordering::Relaxed) {
                                break 'group;
                            }
                            let idx = (k + t + it as usize) % group.len();
                            let mut cx = Cx::default();
                            let verdict = match watched::<P, _>(&group[idx], || catch(|| P::check(&group[idx], &mut cx))) {
                                Ok(v) => v,
                                Err(p) => fail("harness.check_panicked", "check itself does not panic", p.short()),
                            };
                            if let Verdict::Fail(f) = verdict {
                                stop.store(true, Ordering::Relaxed);
                                let mut g = found.lock().unwrap();
                                if g.is_none() {
                                    *g = Some((gi, idx, f));
                                }
                                break 'group;
                            }
                        }
                    }
                }
            });
        }
    });
    found.into_inner().unwrap()
}

fn contend_impl<P: Prop>(group: &[serde_json::Value], threads: usize, iters: u64) -> Result<Option<(usize, Failure)>, String> {
    let cases: Vec<P::Case> = group.iter().map(|v| serde_json::from_value(v.clone()).map_err(|e| e.to_string())).collect::<Result<_, _>>()?;
    Ok(hammer::<P>(&cases, threads, iters))
}

/// the JSON form of a case with one integer component moved by a multiple of a power of two
/// (keys that differ by 2^k * j share a slot of a direct-mapped table of up to 2^k entries)
fn alias_variants(v: &serde_json::Value, salt: u64) -> Vec<serde_json::Value> {
    fn leaves(v: &serde_json::Value, path: &mut Vec<String>, out: &mut Vec<Vec<String>>) {
        match v {
            serde_json::Value::Number(n) if n.as_i64().map(|x| x.unsigned_abs() < (1u64 << 61)).unwrap_or(false) => out.push(path.clone()),
            serde_json::Value::Array(a) => {
                for (i, x) in a.iter().enumerate().take(4) {
                    path.push(i.to_string());
                    leaves(x, path, out);
                    path.pop();
                }
            }
            serde_json::Value::Object(o) => {
                for (k, x) in o {
                    path.push(k.clone());
                    leaves(x, path, out);
                    path.pop();
                }
            }
            _ => {}
        }
    }
    fn at<'a>(v: &'a mut serde_json::Value, path: &[String]) -> Option<&'a mut serde_json::Value> {
        let mut cur = v;
        for p in path {
            cur = match cur {
                serde_json::Value::Array(a) => a.get_mut(p.parse::<usize>().ok()?)?,
                serde_json::Value::Object(o) => o.get_mut(p)?,
                _ => return None,
            };
        }
        Some(cur)
    }
    let mut paths = Vec::new();
    leaves(v, &mut Vec::new(), &mut paths);
    let mut out = Vec::new();
    if paths.is_empty() {
        return out;
    }
    // binary table sizes and field widths (2^8 .. 2^24), and decimal packing (10^2, 10^4)
    const STEPS: [i64; 14] = [256, 1024, -1024, 4096, 65_536, -512, 3 * 1024, 1 << 20, 1 << 23, -(1 << 23), 1 << 24, 1 << 16, 100, 10_000];
    for j in 0..3u64 {
        let path = &paths[((salt / 7 + j) % paths.len() as u64) as usize];
        let k = ((salt / 3 + j * 5) % 14) as usize;
        let step = STEPS[k] * if k < 8 { 1 + (salt >> 9) as i64 % 3 } else { 1 };
        let mut w = v.clone();
        if let Some(leaf) = at(&mut w, path) {
            if let Some(x) = leaf.as_i64() {
                // small components are sizes, widths and counts as often as values: they only move by
                // small steps (a field width of 2^24 characters is a different kind of test)
                if x.unsigned_abs() < 1_000 && step.unsigned_abs() > 1_024 {
                    continue;
                }
                *leaf = serde_json::Value::from(x + step);
                out.push(w);
            }
        }
    }
    // two neighbouring components at once: swapped, and one unit of the first traded for one radix of
    // the second (keys packed in a mixed radix: month*100 + day, hour*60 + minute, ...)
    if paths.len() >= 2 {
        let i = ((salt >> 13) % (paths.len() as u64 - 1)) as usize;
        let (pa, pb) = (paths[i].clone(), paths[i + 1].clone());
        let get = |w: &mut serde_json::Value, p: &Vec<String>| at(w, p).and_then(|l| l.as_i64());
        let mut w = v.clone();
        if let (Some(a), Some(b)) = (get(&mut w, &pa), get(&mut w, &pb)) {
            let mut sw = v.clone();
            if let Some(l) = at(&mut sw, &pa) {
                *l = serde_json::Value::from(b);
            }
            if let Some(l) = at(&mut sw, &pb) {
                *l = serde_json::Value::from(a);
            }
            out.push(sw);
            let radix = [100i64, 60, 24, 12, 1000, 256, 31, 7][((salt >> 21) % 8) as usize];
            // (a swap can also move a large value into a size-like component: keep those out)
            if a.unsigned_abs().max(b.unsigned_abs()) >= 100_000 && a.unsigned_abs().min(b.unsigned_abs()) < 1_000 {
                out.pop();
            }
            for sign in [1i64, -1] {
                let mut tr = v.clone();
                if let Some(l) = at(&mut tr, &pa) {
                    *l = serde_json::Value::from(a - sign);
                }
                if let Some(l) = at(&mut tr, &pb) {
                    *l = serde_json::Value::from(b + sign * radix);
                }
                out.push(tr);
            }
        }
    }
    out
}

pub type ReplayFn = fn(&serde_json::Value, &[serde_json::Value]) -> Result<(Verdict, Vec<&'static str>), String>;

fn replay_impl<P: Prop>(v: &serde_json::Value, before: &[serde_json::Value]) -> Result<(Verdict, Vec<&'static str>), String> {
    for b in before {
        let prior: P::Case = serde_json::from_value(b.clone()).map_err(|e| e.to_string())?;
        let mut cx = Cx::default();
        let _ = catch(|| P::check(&prior, &mut cx));
    }
    let case: P::Case = serde_json::from_value(v.clone()).map_err(|e| e.to_string())?;
    let mut cx = Cx::default();
    let verdict = match watched::<P, _>(&case, || catch(|| P::check(&case, &mut cx))) {
        Ok(v) => v,
        Err(p) => fail("harness.check_panicked", "check returns", p.short()),
    };
    Ok((verdict, cx.labels))
}

// ------------------------------------------------------------------------------------
// Environment of one run (one property, one tier, one profile)
// ------------------------------------------------------------------------------------

pub struct Env {
    pub property: String,
    pub tier: String,
    pub profile: String,
    pub seed: u64,
    pub threads: usize,
    pub known: Vec<KnownEntry>,
    pub stats: Stats,
    pub violations: Vec<Replay>,
    pub registry: BTreeMap<&'static str, ReplayFn>,
    pub contend_registry: BTreeMap<&'static str, ContendFn>,
    pub exhaustive_parts: Vec<String>,
    pub notes: Vec<String>,
    pub replay_dir: String,
    /// scale factor applied to random case counts (VERIF_SCALE, default 1.0)
    pub scale: f64,
    /// when true, only register sub-checks (used by replay)
    pub register_only: bool,
}

fn mix(mut x: u64) -> u64 {
    x = x.wrapping_add(0x9E3779B97F4A7C15);
    x = (x ^ (x >> 30)).wrapping_mul(0xBF58476D1CE4E5B9);
    x = (x ^ (x >> 27)).wrapping_mul(0x94D049BB133111EB);
    x ^ (x >> 31)
}

pub fn derive_seed(seed: u64, parts: &[&str], n: u64) -> u64 {
    let mut h = mix(seed);
    for p in parts {
        for b in p.bytes() {
            h = mix(h ^ b as u64);
        }
        h = mix(h ^ 0xff);
    }
    mix(h ^ n)
}

static STOP: AtomicBool = AtomicBool::new(false);

impl Env {
    pub fn new(property: &str, tier: &str, profile: &str, seed: u64) -> Self {
        install_panic_hook();
        start_hang_monitor(property.to_string(), profile.to_string());
        let known = std::fs::read_to_string("/verif/known_findings.json")
            .ok()
            .and_then(|s| serde_json::from_str::<KnownFile>(&s).ok())
            .map(|k| k.entries)
            .unwrap_or_default();
        let threads = std::env::var("VERIF_THREADS")
            .ok()
            .and_then(|s| s.parse().ok())
            .unwrap_or_else(|| std::thread::available_parallelism().map(|n| n.get()).unwrap_or(8));
        let scale = std::env::var("VERIF_SCALE").ok().and_then(|s| s.parse().ok()).unwrap_or(1.0);
        Env {
            property: property.to_string(),
            tier: tier.to_string(),
            profile: profile.to_string(),
            seed,
            threads,
            known,
            stats: Stats::default(),
            violations: Vec::new(),
            registry: BTreeMap::new(),
            contend_registry: BTreeMap::new(),
            exhaustive_parts: Vec::new(),
            notes: Vec::new(),
            replay_dir: "/verif/evidence/replays".to_string(),
            scale,
            register_only: false,
        }
    }

    pub fn thorough(&self) -> bool {
        self.tier == "thorough"
    }

    pub fn is_known(&self, sig: &str) -> Option<&KnownEntry> {
        if sig.is_empty() {
            return None;
        }
        self.known
            .iter()
            .find(|k| k.status == "known" && k.signature == sig && k.property == self.property)
    }

    pub fn register<P: Prop>(&mut self) {
        self.contend_registry.insert(P::NAME, contend_impl::<P>);
        self.registry.insert(P::NAME, replay_impl::<P>);
    }

    fn judge<P: Prop>(&self, case: &P::Case, stats: &mut Stats, counting: bool) -> Option<Failure> {
        let mut cx = Cx::default();
        let verdict = match watched::<P, _>(case, || catch(|| P::check(case, &mut cx))) {
            Ok(v) => v,
            Err(p) => fail("harness.check_panicked", "check itself does not panic", p.short()),
        };
        if counting {
            stats.record::<P>(case, &cx, &verdict);
        }
        if let Verdict::Fail(f) = verdict {
            if let Some(k) = self.is_known(&f.sig) {
                if counting {
                    let e = stats.known.entry(f.sig.clone()).or_insert((0, k.what.clone()));
                    e.0 += 1;
                }
                return None;
            }
            return Some(f);
        }
        None
    }

    fn push_violation<P: Prop>(&mut self, case: &P::Case, f: Failure, shrunk: bool, seed: u64) {
        self.push_violation_seq::<P>(&[], case, f, shrunk, seed)
    }

    fn push_violation_seq<P: Prop>(&mut self, before: &[P::Case], case: &P::Case, f: Failure, shrunk: bool, seed: u64) {
        if self.violations.len() >= 8 {
            return;
        }
        self.violations.push(Replay {
            before: before.iter().map(|c| serde_json::to_value(c).unwrap_or(serde_json::Value::Null)).collect(),
            concurrent_with: Vec::new(),
            property: self.property.clone(),
            check: P::NAME.to_string(),
            profile: self.profile.clone(),
            seed,
            case: serde_json::to_value(case).unwrap_or(serde_json::Value::Null),
            expected: f.expected,
            actual: f.actual,
            signature: f.sig,
            shrunk,
        });
    }

    /// Random search: `cases` generated cases split over the threads, each thread an
    /// independent seeded proptest runner over `vec(u8, P::BYTES)` decoded by `P::gen`.
    pub fn run_random<P: Prop>(&mut self, cases: u64) {
        self.register::<P>();
        if self.register_only {
            return;
        }
        let cases = ((cases as f64) * self.scale).max(1.0) as u64;
        let threads = self.threads.max(1) as u64;
        let per = (cases + threads - 1) / threads;
        let results: Mutex<Vec<(Stats, Option<(Vec<P::Case>, P::Case, Failure, u64)>)>> = Mutex::new(Vec::new());
        let env = &*self;
        std::thread::scope(|s| {
            for t in 0..threads {
                let results = &results;
                s.spawn(move || {
                    let seed = derive_seed(env.seed, &[&env.property, P::NAME, &env.profile, &env.tier], t);
                    let mut config = Config::default();
                    config.cases = per.min(u32::MAX as u64) as u32;
                    config.failure_persistence = None;
                    config.rng_seed = RngSeed::Fixed(seed);
                    config.rng_algorithm = RngAlgorithm::ChaCha;
                    config.max_shrink_iters = 4096;
                    config.max_shrink_time = 0;
                    config.verbose = 0;
                    config.source_file = None;
                    config.test_name = None;
                    config.max_global_rejects = u32::MAX;
                    let mut runner = TestRunner::new(config);
                    let strategy = (proptest::collection::vec(proptest::num::u8::ANY, P::BYTES), proptest::num::u64::ANY);
                    let stats = RefCell::new(Stats::default());
                    let failed = std::cell::Cell::new(false);
                    let first: RefCell<Option<(Vec<P::Case>, P::Case, Failure)>> = RefCell::new(None);
                    let res = runner.run(&strategy, |(bytes, spec)| {
                        if STOP.load(Ordering::Relaxed) && !failed.get() {
                            return Ok(());
                        }
                        let counting = !failed.get();
                        match env.judge_seq::<P>(&bytes, spec, &mut stats.borrow_mut(), counting) {
                            None => Ok(()),
                            Some((before, case, f)) => {
                                failed.set(true);
                                STOP.store(true, Ordering::Relaxed);
                                let msg = f.actual.clone();
                                if first.borrow().is_none() {
                                    *first.borrow_mut() = Some((before, case, f));
                                }
                                Err(TestCaseError::fail(msg))
                            }
                        }
                    });
                    let viol = match res {
                        Ok(()) => None,
                        Err(TestError::Fail(_, (bytes, spec))) => {
                            let mut dummy = Stats::default();
                            // a failure that depends on what the thread did before may not reproduce
                            // from the shrunk input: fall back to the first one seen
                            env.judge_seq::<P>(&bytes, spec, &mut dummy, false).or_else(|| first.borrow_mut().take()).map(|(b, c, f)| (b, c, f, seed))
                        }
                        Err(TestError::Abort(_)) => None,
                    };
                    results.lock().unwrap().push((stats.into_inner(), viol));
                });
            }
        });
        for (st, viol) in results.into_inner().unwrap() {
            self.stats.merge(st);
            if let Some((before, case, f, seed)) = viol {
                self.push_violation_seq::<P>(&before, &case, f, true, seed);
            }
        }
        if self.violations.is_empty() && !self.stopped() {
            self.run_contention::<P>(P::CONTENTION_GROUPS, P::CONTENTION_ITERS);
        }
    }

    /// State shared between threads: small groups of related cases, each of which passes when judged
    /// alone, are judged by all worker threads at the same time. A failure here cannot come from the
    /// inputs (they passed alone) - only from what another thread was doing.
    pub fn run_contention<P: Prop>(&mut self, groups: u64, iters: u64) {
        self.register::<P>();
        if self.register_only || groups == 0 || iters == 0 {
            return;
        }
        let groups = ((groups as f64) * self.scale.min(4.0) * if self.thorough() { 8.0 } else { 1.0 }).max(1.0) as u64;
        let mut judged = 0u64;
        let mut formed = 0u64;
        let mut all: Vec<(Vec<P::Case>, u64)> = Vec::new();
        for g in 0..groups {
            // generator input from the run's seed
            let mut x = derive_seed(self.seed, &[&self.property, P::NAME, &self.profile, &self.tier, "contention"], g) | 1;
            let mut bytes = vec![0u8; P::BYTES];
            for b in bytes.iter_mut() {
                x ^= x << 13;
                x ^= x >> 7;
                x ^= x << 17;
                *b = (x >> 24) as u8;
            }
            let mut u = Unstructured::new(&bytes);
            let Ok(base) = P::gen(&mut u) else { continue };
            let consumed = (bytes.len() - u.len()).max(1);
            let mut cand: Vec<P::Case> = vec![base.clone()];
            let mut b2 = bytes.clone();
            let pos = (x % consumed as u64) as usize;
            b2[pos] = b2[pos].wrapping_add(1 + (x >> 40) as u8 % 200);
            if let Ok(sib) = P::gen(&mut Unstructured::new(&b2)) {
                cand.push(sib);
            }
            if let Ok(v) = serde_json::to_value(&base) {
                // (a slip in this generic JSON surgery must not take the run down)
                for w in catch(|| alias_variants(&v, x)).unwrap_or_default() {
                    if let Ok(c) = serde_json::from_value::<P::Case>(w) {
                        cand.push(c);
                    }
                }
            }
            // members must pass when judged alone, and be distinct
            let mut group: Vec<P::Case> = Vec::new();
            let mut seen: HashSet<u64> = HashSet::new();
            let t_alone = std::time::Instant::now();
            for c in cand {
                if !seen.insert(fingerprint(P::NAME, &c)) {
                    continue;
                }
                let mut cx = Cx::default();
                if let Ok(Verdict::Pass) = catch(|| P::check(&c, &mut cx)) {
                    group.push(c);
                }
            }
            if group.len() < 2 {
                continue;
            }
            formed += 1;
            // repetitions bounded by cost: a group occupies the workers for about 0.1 s at most
            // (cases of some sub-checks are whole rows or histories)
            let per_round = t_alone.elapsed().as_secs_f64().max(1e-7);
            let iters = ((0.05 / per_round) as u64).clamp(2, iters);
            judged += iters * group.len() as u64 * self.threads.max(2) as u64;
            all.push((group, iters));
        }
        if let Some((gi, idx, mut f)) = hammer_groups::<P>(&all, self.threads) {
            let group = &all[gi].0;
            if self.is_known(&f.sig).is_none() {
                f.expected = format!("(this case passes when judged alone; it failed while {} threads were judging it together with {} related cases) {}", self.threads.max(2), group.len() - 1, f.expected);
                if self.violations.len() < 8 {
                    self.violations.push(Replay {
                        property: self.property.clone(),
                        check: P::NAME.to_string(),
                        profile: self.profile.clone(),
                        seed: self.seed,
                        case: serde_json::to_value(&group[idx]).unwrap_or(serde_json::Value::Null),
                        expected: f.expected,
                        actual: f.actual,
                        signature: f.sig,
                        shrunk: false,
                        before: Vec::new(),
                        concurrent_with: group.iter().enumerate().filter(|(i, _)| *i != idx).map(|(_, c)| serde_json::to_value(c).unwrap_or(serde_json::Value::Null)).collect(),
                    });
                }
                STOP.store(true, Ordering::Relaxed);
            }
        }
        self.stats.evaluations += judged;
        *self.stats.labels.entry("groups_of_related_cases_judged_concurrently_by_all_threads").or_default() += formed;
    }

    /// One generated input: the case, and for one input in `P::SIBLING_EVERY` a sibling case and
    /// the case again. Returns the failing case with the cases judged before it.
    fn judge_seq<P: Prop>(&self, bytes: &[u8], spec: u64, stats: &mut Stats, counting: bool) -> Option<(Vec<P::Case>, P::Case, Failure)> {
        let mut u = Unstructured::new(bytes);
        let case = match P::gen(&mut u) {
            Ok(c) => c,
            Err(_) => return None,
        };
        let consumed = bytes.len() - u.len();
        if let Some(f) = self.judge::<P>(&case, stats, counting) {
            return Some((Vec::new(), case, f));
        }
        if P::SIBLING_EVERY == 0 || consumed == 0 || spec % P::SIBLING_EVERY != P::SIBLING_EVERY - 1 {
            return None;
        }
        let mut s = mix(spec);
        let mut b2 = bytes.to_vec();
        let n = if s & 3 == 0 { 2 } else { 1 };
        s >>= 2;
        for _ in 0..n {
            let pos = (s % consumed as u64) as usize;
            s = mix(s);
            let val = (s & 0xff) as u8;
            s >>= 8;
            b2[pos] = if b2[pos] == val { val ^ 1 } else { val };
        }
        let mut u2 = Unstructured::new(&b2);
        let sib = match P::gen(&mut u2) {
            Ok(c) => c,
            Err(_) => return None,
        };
        if fingerprint(P::NAME, &sib) == fingerprint(P::NAME, &case) {
            return None;
        }
        if counting {
            *stats.labels.entry("judged_again_after_a_sibling_case").or_default() += 1;
        }
        if let Some(f) = self.judge::<P>(&sib, stats, counting) {
            return Some((vec![case], sib, f));
        }
        let mut before = vec![case.clone(), sib];
        // one time in three a third case is judged in between: the case itself with one or two integer
        // components moved by a power of two / a radix, or two neighbouring components swapped - what
        // a packed or truncated cache key confuses with the case. Such a variant never came out of
        // the generator and may lie outside the property's domain, so its own verdict is not used;
        // what counts is that the original case still passes afterwards.
        if s % 3 == 0 {
            if let Ok(v) = serde_json::to_value(&case) {
                let vars = catch(|| alias_variants(&v, s)).unwrap_or_default();
                if !vars.is_empty() {
                    if let Ok(c) = serde_json::from_value::<P::Case>(vars[(s >> 7) as usize % vars.len()].clone()) {
                        let mut scratch = Stats::default();
                        let _ = self.judge::<P>(&c, &mut scratch, false);
                        before.push(c);
                        if counting {
                            *stats.labels.entry("judged_again_after_a_packed-key_look-alike").or_default() += 1;
                        }
                    }
                }
            }
        }
        let mut scratch = Stats::default();
        if let Some(mut f) = self.judge::<P>(&case, &mut scratch, false) {
            f.expected = format!("(the same case passed before related cases were judged on this thread) {}", f.expected);
            return Some((before, case, f));
        }
        None
    }

    /// Deterministic enumeration: `chunks` work items distributed over the threads;
    /// `make(chunk)` yields the cases of that chunk.
    pub fn run_enum<P: Prop, I: Iterator<Item = P::Case>>(
        &mut self,
        chunks: u64,
        make: impl Fn(u64) -> I + Sync,
    ) {
        self.register::<P>();
        if self.register_only {
            return;
        }
        let next = std::sync::atomic::AtomicU64::new(0);
        let results: Mutex<Vec<(Stats, Option<(P::Case, Failure)>)>> = Mutex::new(Vec::new());
        let env = &*self;
        let threads = self.threads.max(1);
        std::thread::scope(|s| {
            for _ in 0..threads {
                let results = &results;
                let next = &next;
                let make = &make;
                s.spawn(move || {
                    let mut stats = Stats::default();
                    let mut viol = None;
                    'outer: loop {
                        let c = next.fetch_add(1, Ordering::Relaxed);
                        if c >= chunks || STOP.load(Ordering::Relaxed) {
                            break;
                        }
                        for case in make(c) {
                            if let Some(f) = env.judge::<P>(&case, &mut stats, true) {
                                viol = Some((case, f));
                                STOP.store(true, Ordering::Relaxed);
                                break 'outer;
                            }
                        }
                    }
                    results.lock().unwrap().push((stats, viol));
                });
            }
        });
        for (st, viol) in results.into_inner().unwrap() {
            self.stats.merge(st);
            if let Some((case, f)) = viol {
                self.push_violation::<P>(&case, f, false, 0);
            }
        }
    }

    /// Tight-loop enumeration for very large finite spaces: `work(chunk, counters)` checks a
    /// whole chunk inline, bumps the counters itself and returns the suspicious cases, which
    /// are then judged through the ordinary `P::check` path (so the verdict, signature and
    /// replay file are produced by the same code as everywhere else).
    pub fn run_fast<P: Prop>(
        &mut self,
        chunks: u64,
        work: impl Fn(u64, &mut FastStats) -> Vec<P::Case> + Sync,
    ) {
        self.register::<P>();
        if self.register_only {
            return;
        }
        let next = std::sync::atomic::AtomicU64::new(0);
        let results: Mutex<Vec<(Stats, Option<(P::Case, Failure)>)>> = Mutex::new(Vec::new());
        let env = &*self;
        let threads = self.threads.max(1);
        std::thread::scope(|s| {
            for _ in 0..threads {
                let results = &results;
                let next = &next;
                let work = &work;
                s.spawn(move || {
                    let mut stats = Stats::default();
                    let mut fs = FastStats::default();
                    let mut viol = None;
                    'outer: loop {
                        let c = next.fetch_add(1, Ordering::Relaxed);
                        if c >= chunks || STOP.load(Ordering::Relaxed) {
                            break;
                        }
                        for case in work(c, &mut fs) {
                            let mut scratch = Stats::default();
                            let r = env.judge::<P>(&case, &mut scratch, true);
                            // keep only the known-finding counts and samples of the re-judged case
                            for (k, v) in scratch.known {
                                let e = stats.known.entry(k).or_insert((0, v.1.clone()));
                                e.0 += v.0;
                            }
                            if let Some(f) = r {
                                viol = Some((case, f));
                                STOP.store(true, Ordering::Relaxed);
                                break 'outer;
                            }
                        }
                    }
                    stats.evaluations += fs.evaluations;
                    stats.nontrivial_by_construction += fs.nontrivial;
                    results.lock().unwrap().push((stats, viol));
                });
            }
        });
        for (st, viol) in results.into_inner().unwrap() {
            self.stats.merge(st);
            if let Some((case, f)) = viol {
                self.push_violation::<P>(&case, f, false, 0);
            }
        }
    }

    /// Evaluate a fixed list of cases (regression inputs, hand-picked anchors).
    pub fn run_list<P: Prop>(&mut self, cases: Vec<P::Case>) {
        let cases = std::sync::Arc::new(cases);
        let n = cases.len() as u64;
        let c2 = cases.clone();
        self.run_enum::<P, _>(n, move |i| std::iter::once(c2[i as usize].clone()));
    }

    pub fn stopped(&self) -> bool {
        STOP.load(Ordering::Relaxed)
    }

    /// For hand-written tight loops (2^32 enumerations): merge externally gathered counters.
    pub fn merge_stats(&mut self, st: Stats) {
        self.stats.merge(st);
    }

    pub fn direct_violation(&mut self, check: &str, case: serde_json::Value, f: Failure) {
        if self.is_known(&f.sig).is_some() {
            let what = self.is_known(&f.sig).unwrap().what.clone();
            let e = self.stats.known.entry(f.sig.clone()).or_insert((0, what));
            e.0 += 1;
            return;
        }
        STOP.store(true, Ordering::Relaxed);
        if self.violations.len() >= 8 {
            return;
        }
        self.violations.push(Replay {
            property: self.property.clone(),
            check: check.to_string(),
            profile: self.profile.clone(),
            seed: self.seed,
            case,
            expected: f.expected,
            actual: f.actual,
            signature: f.sig,
            shrunk: false,
            before: Vec::new(),
            concurrent_with: Vec::new(),
        });
    }
}

/// decode helpers on Unstructured -------------------------------------------------------

pub trait UExt {
    fn pick<T: Copy>(&mut self, xs: &[T]) -> arbitrary::Result<T>;
    fn below(&mut self, n: u64) -> arbitrary::Result<u64>;
    fn range_i64(&mut self, lo: i64, hi: i64) -> arbitrary::Result<i64>;
    fn coin(&mut self, num: u8, den: u8) -> arbitrary::Result<bool>;
}

impl UExt for Unstructured<'_> {
    fn pick<T: Copy>(&mut self, xs: &[T]) -> arbitrary::Result<T> {
        let i = self.int_in_range(0..=xs.len() - 1)?;
        Ok(xs[i])
    }
    fn below(&mut self, n: u64) -> arbitrary::Result<u64> {
        if n <= 1 {
            return Ok(0);
        }
        self.int_in_range(0..=n - 1)
    }
    fn range_i64(&mut self, lo: i64, hi: i64) -> arbitrary::Result<i64> {
        self.int_in_range(lo..=hi)
    }
    fn coin(&mut self, num: u8, den: u8) -> arbitrary::Result<bool> {
        Ok(self.int_in_range(0..=den - 1)? < num)
    }
}
