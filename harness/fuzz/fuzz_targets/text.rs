#![no_main]
//! Raw text through every text-consuming API (C14): byte 0 selects the API, the rest is
//! lossy UTF-8 split at the first newline into pattern and input.
use astrolabe_verif::fuzz;
use libfuzzer_sys::fuzz_target;

fuzz_target!(|data: &[u8]| {
    fuzz::text(data);
});
