#![no_main]
//! Structure-aware: byte 0 selects a property, the rest drives that property's generator
//! (the same decoder the proptest driver uses), the property's oracle judges the case.
use astrolabe_verif::fuzz;
use libfuzzer_sys::fuzz_target;

fuzz_target!(|data: &[u8]| {
    fuzz::structured(data);
});
