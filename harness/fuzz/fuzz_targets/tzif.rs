#![no_main]
//! Raw bytes offered as TZif data (C19).
use astrolabe_verif::fuzz;
use libfuzzer_sys::fuzz_target;

fuzz_target!(|data: &[u8]| {
    fuzz::tzif(data);
});
