#!/usr/bin/env python3
"""Regenerates /verif/MANIFEST.json from the table below (kept in one place so the
manifest stays valid while checks are added)."""
import json, os, subprocess
ROOT = os.path.dirname(os.path.dirname(os.path.abspath(__file__)))

# id -> (technique, level text, level note, design ref)
CLAIMED = {
 "C01": ("complete enumeration + seeded random search against an independent civil-calendar model (two formulations)",
         "thorough tier enumerates all 2^32 day numbers and all 5.4e9 (year, month, day) triples of the stated domain against an independent model, so within the model's correctness the property is decided exhaustively; quick tier enumerates boundary windows (~6M days, ~3000 years x 462 triples), all 2^32 day numbers and 48 probe dates in every one of the 11.76M years, plus 2.5M random cases; every refused triple is surrounded by valid constructions and reads (a refused call leaves nothing behind)",
         "trusts the reference calendar in harness/src/model/cal.rs (closed form cross-checked against successor stepping and anchors at every run) and Date::from_timestamp as the way to reach a day number",
         "DESIGN.md 4 C01"),
 "C02": ("complete enumeration (getters: all days; format fields: year-end fortnights of all years; setter: all years x N) + random search against model weekday / day-of-year / ISO week (two formulations) / quarter",
         "thorough: weekday() and day_of_year() for all 2^32 days, the w/q/e/D format fields for Dec 25..Jan 7 of all 11.76M years plus 400-year cycles and range ends, set_day_of_year for every year x 0..=367; quick: windows of the same, every 5th day of the whole range for the getters, every 1009th day and the year-end fortnight of every 23rd year for the fields, plus 1M random cases, each day also formatted with three composed patterns (fields next to other date fields, with and without text between). Generated-input search, exhaustive on the getter and setter sub-domains",
         "trusts the ISO-8601 reading 'proleptic Gregorian, astronomical year numbering' for years <= 0 (both model formulations share it) and the documented symbol table for e/w/q/D",
         "DESIGN.md 4 C02"),
 "C03": ("seeded boundary-dense random search + enumeration around the range ends against an i128 time line",
         "1M (quick) / 20M (thorough) timestamps over the full i64 domain and as many pairs of instants with independent offsets; every comparison operator and the sign of all *_since checked against the exact instants; one operand also taken through clear_until_* and compared with a freshly built equal value. Absence of counter-examples in N generated cases, not a proof",
         "trusts i128 arithmetic and the calendar model; set_offset is applied to values at least one day inside the range only (where every offset has a representable local reading)",
         "DESIGN.md 4 C03"),
 "C04": ("seeded boundary-dense random search against an i128 time line with a representability predicate, in two overflow profiles",
         "2M (quick) / 40M (thorough) operations over receivers of all eras, u32 counts incl. the 2^63/2^64 overflow thresholds, Durations up to u64::MAX seconds and range-end targeting; representable => exact instant and offset, otherwise panic. Running astrolabe with overflow checks on and off turns both 'spurious panic' and 'silently wrapped value' into observable failures",
         "trusts i128 arithmetic; reads results through set_offset(0)/timestamp()/nano()",
         "DESIGN.md 4 C04"),
 "C05": ("complete product over year windows + seeded random search against model month arithmetic (two formulations)",
         "quick: all (month, boundary day) x N<=50 x 4 operations for years -12..12 and selected modern/century years plus 2M random cases; thorough: all (month, day) x N<=50 x 4 operations for years -800..800 plus 40M random cases with N up to 2^32-1 and range-end/era targeting",
         "trusts the month model (astronomical month index; stepping formulation cross-checked for N<=50); receivers with a non-zero offset: time of day and offset preserved, and the result is the target under the UTC or the local reading of the date (must return where both are representable, must panic where neither is; in between unspecified)",
         "DESIGN.md 4 C05"),
 "C06": ("seeded random search over pairs of instants against the exact i128 difference; metamorphic add/since inversion",
         "1.5M (quick) / 30M (thorough) pairs and add-then-since cases on DateTime, Time and Date with independent offsets; truncation toward zero, antisymmetry, duration_between",
         "trusts i128 arithmetic",
         "DESIGN.md 4 C06"),
 "C07": ("complete pair enumeration inside multi-year windows (row-wise, with monotonicity) + random pairs; bracket oracle on the model's month arithmetic",
         "every ordered pair of days in windows containing a leap year, the era boundary and BC leap years (quick ~3.5M pairs, thorough ~20M), DateTime pairs with three times of day on both sides, plus random pairs over the whole range and every exact anniversary (and the day / nanosecond before it) of every start month of two (thorough: six) whole 400-year cycles x 1..=4812 months; validity predicate (bracket), antisymmetry, monotonicity along rows",
         "trusts the model's add_months (never the crate's); the bracket is judged only when the earlier value's day of month is <= 28, as the property states",
         "DESIGN.md 4 C07"),
 "C08": ("model-based stateful generation (operation histories on Time, invariant after every step) + enumeration of single operations from every second of the day",
         "300k (quick) / 5M (thorough) histories of up to 12 operations over the whole Time API incl. operators, setters, offsets, conversion from DateTime and parse(format); reference state = (ns mod 24 h, offset); thorough enumerates all 86 400 seconds x 4 sub-second values x 100+ single operations",
         "as_offset on a value that already carries an offset is treated as unspecified and skipped; a parse(format(..)) refusal is left to C12",
         "DESIGN.md 4 C08"),
 "C09": ("seeded random search against a local-field model (apply offset, edit one field, remove offset)",
         "2.3M (quick) / 45M (thorough) (instant, offset, operation, candidate) cases over all 10 setters and 9 clears on DateTime, Date and Time with offsets biased to make the local date differ from the UTC date; all 11 getters of the result, the offset and the instant compared with the model; invalid candidates must give OutOfRange",
         "sub-second setter ranges taken from the getter docs/error messages (0..=999, 0..=999_999, 0..=999_999_999), the setter doc sentences '0..=100...' being treated as typos; clear_until_* (infallible signature) with receiver or target within 2-3 days of a range end skipped as unspecified; setters are judged there too (exact value, or OutOfRange when the instant is not representable)",
         "DESIGN.md 4 C09"),
 "C10": ("enumeration of the offset axis (every 61st offset quick, all 172 799 thorough) x fixed instants + seeded random search against the local-field model",
         "set_offset keeps timestamp/instant/equality/order/all differences and shifts every getter and the formatted rendering by the offset; as_offset keeps the fields and moves the instant; Offset constructors accept exactly +-23:59:59. The offset axis is finite and enumerated completely in the thorough tier",
         "instants on the outermost day at each end are outside the property's quantifier (one-day margin) and not generated; for as_offset on a value already carrying an offset only the instant/offset clause is asserted",
         "DESIGN.md 4 C10"),
 "C15": ("seeded boundary-dense random search over argument tuples with a validity model; metamorphic message-range consistency sweep",
         "2M (quick) / 40M (thorough) argument tuples over all 12 constructor/setter families (29 functions), each judged for Ok <=> valid, exact value, OutOfRange, no panic, plus ~45 alternative-value probes per rejected call whose message states a range; 500k / 5M DateTime setter calls on offset-carrying receivers on the two outermost days at each range end (valid fields with an unrepresentable instant must give OutOfRange)",
         "trusts the validity models of C01/C08/C09/C10; messages without the 'must be in the range' form are not judged; a message naming a receiver field (day when set_month makes the date invalid) must exclude that field's value; a stated range of 'nanoseconds' is read as the range of instants (ns since 0001-01-01Z)",
         "DESIGN.md 4 C15"),
 "C11": ("grammar-based pattern generation + symbol x width x value-class product against a reference formatter written from the doc tables; Offset::Local values rendered under an injected zone file and pinned clock",
         "500k (quick) / 10M (thorough) (value, pattern) cases over all three types, all eras, all offsets, patterns of fields x widths 1..=10, literals incl. non-ASCII, quoted text and '' escapes; plus the complete product 19 symbols x 10 widths x ~2300 value classes; output compared character by character with the reference rendering; 60k / 1M Time and DateTime values carrying Offset::Local under synthesized zone files and a pinned clock (C11.local_offset); the same pattern used on the other two types directly before (history independence)",
         "trusts the reference formatter (reproduces all 403 format assertions of the repository's own tests at every selftest); renderings the table leaves open (yy for years <= -10, b inside the noon/midnight second, X..XXX for |offset| < 60 s) are skipped and counted; one known finding (a literal U+0000 in a pattern is rendered as an apostrophe) is listed in known_findings.json and reported as KNOWN-FINDING",
         "DESIGN.md 4 C11"),
 "C12": ("round-trip property over a constructed grammar of coherent, textually unambiguous patterns; inputs are the crate's own formatted output",
         "500k (quick) / 10M (thorough) (value, pattern) cases; parse(format(v,p),p) must succeed, re-format to the same string, default absent groups, and - when the pattern carries full date, time and zone - return the same instant and offset",
         "the pattern grammar encodes the property's 'unambiguous in text' precondition (separator after variable-width fields, no narrow names, zone wide enough, derived date fields only next to a full date, 12-hour fields only with a period, `b` only with hour, minute and second); time fields may be present independently of each other (the parsed time keeps the present ones and is zero in the absent ones); anything outside is skipped and counted, not judged",
         "DESIGN.md 4 C12"),
 "C13": ("grammar-based generation from the RFC 3339 ABNF + field mutants against an independent hand-written RFC 3339 reader/writer",
         "500k + 500k (quick) / 10M + 10M (thorough): write side over all instants of years 0001-9999 x whole-minute offsets x 5 precisions, read side over ABNF strings with 0..40 fraction digits plus fraction lengths at 2^k and 2^k+-1 up to 65 537 digits and 11 kinds of out-of-range field mutants, through parse_rfc3339 and FromStr",
         "year 0000, second :60 and lower-case t/z are unspecified and not judged; beyond nine fraction digits truncation and round-to-nearest are both accepted",
         "DESIGN.md 4 C13"),
 "C14": ("complete enumeration of short hostile strings per symbol x width + grammar-aware mutational generation + coverage-guided libFuzzer targets, all under catch_unwind with a validity oracle on Ok",
         "quick: all 1885 strings of length <= 3 over a 12-symbol alphabet (1-4 byte characters, signs, quote) x 456 one-field patterns and through every pattern-less API (~3.7M calls) + 3M mutated grammar cases (incl. long multi-byte fields) + ~3k length-threshold cases (field widths, digit runs, quoted text, lists and padding of 2^4..2^16 +-1 characters) ; thorough: length <= 4 (22621 strings), 22M mutated cases and libFuzzer campaigns on the text and TZif targets",
         "a panic anywhere in parse/from_str/parse_rfc3339/format/CronSchedule::parse/serde is a violation; Ok values are re-validated through the public constructors",
         "DESIGN.md 4 C14"),
 "C16": ("grammar-based generation + single-edit mutation + per-field complete value/step/range enumeration against a reference cron parser; denoted sets observed through the iterator under a pinned clock",
         "200k (quick) / 2M (thorough) expressions (half mutated; one in twelve with lists of up to ~1000 items or whitespace runs of up to 65 537 characters; one in ten a sparse schedule read back from a generated start) plus every value, step and (grid of) ranges per field; accept/reject agreement and, for accepted expressions, equality of each field's denoted set read back through five probe schedules; mutants also put month/weekday names (any case, prefixes, extensions) into any field; look-alike expressions (field boundary moved, fields swapped, digit changed, case flipped) are parsed directly before the expression whose first result is then compared again",
         "leading zeros, '+' on values, steps > max+1, ranges with start > end and Unicode white space are unspecified and skipped; needs the clock pin hook",
         "DESIGN.md 4 C16"),
 "C17": ("model-based stateful generation: histories of (advance pinned clock, next, optional clone, optional second schedule polled in between) against a reference earliest-matching-minute search",
         "300k + 20k (quick) / 2M + 500k (thorough) histories of up to 12 / 13-40 calls over sparse/dense schedules, month ends, leap days, year ends, clock jumps from 0 s to 800 days, clocks in any year (1970-2400, 1-9999, far years incl. before 0001 and next to the range ends); half of them with a second satisfiable schedule polled directly before every call and held to the same reference; every returned value must equal the reference",
         "'restricted' day field = its value set is not the full range (set semantics, as the implementation and the property's anchors use); histories stop (skipped) when the reference result lies within a few years of the last representable year; needs the clock pin hook",
         "DESIGN.md 4 C17"),
 "C18": ("differential against a reference RFC 8536 / POSIX-TZ evaluator (itself cross-checked against CPython zoneinfo) over a vendored zoneinfo corpus and synthesized TZif files",
         "all 788 vendored fat+slim zone files x ~150 (quick) / ~2000 (thorough) timestamps at transitions, rule switches and random instants, plus 20k (quick) / 1M (thorough) synthesized v1/v2/v3 files with IANA-shaped footer rules (one in five with leap-second records), looked up in years 1900-2500 and, for the footer rule, in 22 far years from the first to the last supported year; one case in ten through the real Offset::Local.resolve() with injected /etc/localtime and pinned clock",
         "only timestamps from the first transition on are judged; empty footers are out of scope; leap-second records are stepped over, their corrections are not applied (the vendored corpus has no right/ zones); needs the TZif entry point and /etc/localtime injection hooks",
         "DESIGN.md 4 C18"),
 "C19": ("structure-aware mutation of valid TZif files + mutated POSIX-TZ grammar + raw bytes, under catch_unwind; libFuzzer target on raw bytes in the thorough tier",
         "quick: ~9k systematic mutants (every header count x value, every truncation point, type bytes, hostile rule strings) + 600k random mutants (syntactically hostile and valid-but-degenerate footers) + 400k files with free header counts and a body laid out consistently with them but arbitrary content, each accepted file probed at ~100 timestamps over the whole DateTime range, one in ten through Offset::Local.resolve(); thorough: 6M mutants + fuzz campaign",
         "'never loops': a case that does not return within 45 s in the run and 120 s when replayed alone in a fresh process is reported as c19.does_not_return (hang monitor, DESIGN.md 2.6); I/O failure modes other than a read error are not modelled",
         "DESIGN.md 4 C19"),
 "C20": ("seeded random search against the reference formatter and a serde_json round trip; mutational generation for malformed text",
         "500k (quick) / 10M (thorough) values of all three types (all eras, all offsets) for Display/FromStr/serde, 1M / 5M malformed texts through FromStr and serde_json under catch_unwind; an accepted text of the documented shape must be read as the value it names (digit runs also congruent modulo 2^32 / 2^64 to valid fields)",
         "DateTime serde is judged for years 0001-9999 and whole-minute offsets only (the RFC 3339 domain)",
         "DESIGN.md 4 C20"),
}
PLANNED = {}
props = [json.loads(l) for l in open(os.path.join(ROOT, "properties.jsonl"))]
checks = []
na = []
for p in props:
    pid = p["id"]
    if pid in CLAIMED:
        tech, text, note, ref = CLAIMED[pid]
        checks.append({
            "property_id": pid,
            "quick_cmd": "./check %s quick" % pid,
            "thorough_cmd": "./check %s thorough" % pid,
            "evidence_file": "/verif/evidence/%s.json" % pid,
            "replay_cmd_template": "./check %s --replay {path}" % pid,
            "engine": "astrolabe-verif",
            "level_claimed": {"category": "exploration", "text": text, "design_ref": ref},
            "level_note": note,
            "technique": tech,
        })
    else:
        na.append({"property_id": pid, "reason": PLANNED.get(pid, "check not built yet in this round; design in DESIGN.md section 4 (%s); not claimed until its check exists and is silent on the unchanged tree" % pid)})
hooks_commits = subprocess.run(["git", "-C", "/repo", "log", "--format=%H", "--grep=^verif hooks"], capture_output=True, text=True).stdout.split()
m = {
 "version": 1,
 "setup_cmd": "./setup.sh",
 "hooks": {
   "guard": "--cfg astrolabe_verif",
   "enable": "harness/.cargo/config.toml sets build.rustflags = [\"--cfg\", \"astrolabe_verif\"]; the harness depends on astrolabe by path (/repo), so every ./check rebuilds it from the working tree with the hooks on",
   "baseline_off_cmd": "cd /repo && cargo test --workspace --no-fail-fast --offline",
   "source_commits": hooks_commits,
   "add_only": True,
 },
 "engines": [{
   "name": "astrolabe-verif",
   "path": "/verif/harness",
   "serves_properties": [c["property_id"] for c in checks],
   "kind_free_text": "Rust harness: proptest-driven seeded random search over byte-decoded structured cases (arbitrary::Unstructured), complete enumerators for the finite spaces, reference models, shrinking to replay files; libFuzzer targets (cargo-fuzz) share the same decoders and oracles",
 }],
 "checks": checks,
 "not_applicable": na,
 "notes": "Every check runs astrolabe in two arithmetic profiles (overflow-checks on and off). exit 2 = inconclusive (build failure, self-test failure, timeout), never a VIOLATION. Known findings: /verif/known_findings.json.",
}
json.dump(m, open(os.path.join(ROOT, "MANIFEST.json"), "w"), indent=1)
print("claimed:", [c["property_id"] for c in checks])
