#!/usr/bin/env python3
"""Regenerates /verif/MANIFEST.json from the table below (kept in one place so the
manifest stays valid while checks are added)."""
import json, os, subprocess
ROOT = os.path.dirname(os.path.dirname(os.path.abspath(__file__)))

# id -> (technique, level text, level note, design ref)
CLAIMED = {
 "C01": ("complete enumeration + seeded random search against an independent civil-calendar model (two formulations)",
         "thorough tier enumerates all 2^32 day numbers and all 5.4e9 (year, month, day) triples of the stated domain against an independent model, so within the model's correctness the property is decided exhaustively; quick tier enumerates boundary windows (~6M days, ~3000 years x 462 triples) plus 1M random cases",
         "trusts the reference calendar in harness/src/model/cal.rs (closed form cross-checked against successor stepping and anchors at every run) and Date::from_timestamp as the way to reach a day number",
         "DESIGN.md 4 C01"),
}
PLANNED = {}
props = [json.loads(l) for l in open(os.path.join(ROOT, "properties.jsonl"))]
checks = []
na = []
for p in props:
    pid = p["id"]
    if pid in CLAIMED:
        tech, text, note, ref = CLAIMED[pid]
        checks.append({
            "property_id": pid,
            "quick_cmd": "./check %s quick" % pid,
            "thorough_cmd": "./check %s thorough" % pid,
            "evidence_file": "/verif/evidence/%s.json" % pid,
            "replay_cmd_template": "./check %s --replay {path}" % pid,
            "engine": "astrolabe-verif",
            "level_claimed": {"category": "exploration", "text": text, "design_ref": ref},
            "level_note": note,
            "technique": tech,
        })
    else:
        na.append({"property_id": pid, "reason": PLANNED.get(pid, "check not built yet in this round; design in DESIGN.md section 4 (%s); not claimed until its check exists and is silent on the unchanged tree" % pid)})
hooks_commits = subprocess.run(["git", "-C", "/repo", "log", "--format=%H", "--grep=^verif hooks"], capture_output=True, text=True).stdout.split()
m = {
 "version": 1,
 "setup_cmd": "./setup.sh",
 "hooks": {
   "guard": "--cfg astrolabe_verif",
   "enable": "harness/.cargo/config.toml sets build.rustflags = [\"--cfg\", \"astrolabe_verif\"]; the harness depends on astrolabe by path (/repo), so every ./check rebuilds it from the working tree with the hooks on",
   "baseline_off_cmd": "cd /repo && cargo test --workspace --no-fail-fast --offline",
   "source_commits": hooks_commits,
   "add_only": True,
 },
 "engines": [{
   "name": "astrolabe-verif",
   "path": "/verif/harness",
   "serves_properties": [c["property_id"] for c in checks],
   "kind_free_text": "Rust harness: proptest-driven seeded random search over byte-decoded structured cases (arbitrary::Unstructured), complete enumerators for the finite spaces, reference models, shrinking to replay files; libFuzzer targets (cargo-fuzz) share the same decoders and oracles",
 }],
 "checks": checks,
 "not_applicable": na,
 "notes": "Every check runs astrolabe in two arithmetic profiles (overflow-checks on and off). exit 2 = inconclusive (build failure, self-test failure, timeout), never a VIOLATION. Known findings: /verif/known_findings.json.",
}
json.dump(m, open(os.path.join(ROOT, "MANIFEST.json"), "w"), indent=1)
print("claimed:", [c["property_id"] for c in checks])
