#!/usr/bin/env python3
"""Extracts the repository's own format assertions (tests/format.rs) into
corpus/format_golden.jsonl, used to keep the reference formatter honest (model self-test).
Run once when vendoring; the output is committed."""
import re, json, sys, datetime
src = open('/repo/tests/format.rs').read()
out = []
cur = None
def days(y, m, d):
    # proleptic Gregorian, no year 0; day 0 = 0001-01-01
    a = y + 1 if y < 0 else y
    yy = a - 1 if m <= 2 else a
    era = yy // 400
    yoe = yy - era * 400
    mp = (m + 9) % 12
    doy = (153 * mp + 2) // 5 + d - 1
    doe = yoe * 365 + yoe // 4 - yoe // 100 + doy
    return era * 146097 + doe - 306
stmts = re.split(r';\s*\n', src)
for st in stmts:
    st = ' '.join(st.split())
    m = re.search(r'let (\w+) = (Date|DateTime|Time)::(\w+)\(([^)]*)\) ?\.unwrap\(\)(.*)$', st)
    if m:
        var, ty, ctor, args, rest = m.groups()
        args = [int(a.replace('_', '')) for a in args.split(',') if a.strip()]
        off = 0
        mo = re.search(r'\.set_offset\(Offset::from_seconds\((-?\d+)\)\.unwrap\(\)\)', rest)
        if mo:
            off = int(mo.group(1))
        elif rest.strip():
            cur = None
            continue
        if ty == 'Date' and ctor == 'from_ymd':
            cur = dict(var=var, type='Date', day=days(*args), ns=0, off=0)
        elif ty == 'DateTime' and ctor == 'from_ymd':
            cur = dict(var=var, type='DateTime', day=days(*args), ns=0, off=off)
        elif ty == 'DateTime' and ctor == 'from_hms':
            cur = dict(var=var, type='DateTime', day=0, ns=(args[0]*3600+args[1]*60+args[2])*10**9, off=off)
        elif ty == 'Time' and ctor == 'from_hms':
            cur = dict(var=var, type='Time', day=0, ns=(args[0]*3600+args[1]*60+args[2])*10**9, off=off)
        elif ty == 'Time' and ctor == 'from_nanos':
            cur = dict(var=var, type='Time', day=0, ns=args[0], off=off)
        else:
            cur = None
        continue
    m = re.search(r'assert_eq!\( ?"((?:[^"\\]|\\.)*)", ?(\w+)\.format\("((?:[^"\\]|\\.)*)"\) ?,?\s*\)', st)
    if m and cur and m.group(2) == cur['var']:
        exp, _, pat = m.groups()
        d = dict(cur); del d['var']
        d['pattern'] = pat.encode().decode('unicode_escape') if '\\' in pat else pat
        d['expected'] = exp.encode().decode('unicode_escape') if '\\' in exp else exp
        out.append(d)
with open('/verif/corpus/format_golden.jsonl', 'w') as f:
    for d in out:
        f.write(json.dumps(d) + '\n')
print(len(out), 'assertions extracted of', src.count('assert_eq!'))
