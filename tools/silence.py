#!/usr/bin/env python3
"""silence.py [n_seeds] - runs every quick check with several seeds from fresh processes on
the current tree and records exit codes and timings in tools/silence.json (used by
tools/gen_results.py). Any non-zero exit is printed."""
import json, os, subprocess, sys, time
ROOT = os.path.dirname(os.path.dirname(os.path.abspath(__file__)))
n = int(sys.argv[1]) if len(sys.argv) > 1 else 3
ids = [json.loads(l)['id'] for l in open(os.path.join(ROOT, 'properties.jsonl'))]
out = {}
bad = []
seeds = [1, 20261001, 987654321987, 42, 7, 31337, 2**40 + 3, 5, 99, 123456789][:n]
for pid in ids:
    walls = []
    for sd in seeds:
        t0 = time.time()
        r = subprocess.run([os.path.join(ROOT, 'check'), pid, 'quick'], cwd=ROOT, env=dict(os.environ, VERIF_SEED=str(sd)), stdout=subprocess.PIPE, stderr=subprocess.STDOUT, text=True)
        walls.append(round(time.time() - t0, 1))
        if r.returncode != 0 or 'VIOLATION' in r.stdout:
            bad.append((pid, sd, r.returncode, r.stdout[-1500:]))
            print('NOT SILENT', pid, 'seed', sd, 'exit', r.returncode)
            print(r.stdout[-1500:])
    e = json.load(open(os.path.join(ROOT, 'evidence', pid + '.json')))
    out[pid] = {'evaluations': e['coverage']['evaluations'], 'distinct_nontrivial': e['coverage']['distinct_nontrivial'], 'wall_s': '/'.join(str(w) for w in walls)}
    print(pid, out[pid], flush=True)
out['_note'] = 'Each quick command was run from a fresh process with the %d seeds %s on the repaired tree: %s. Wall times are per seed on 16 cores with warm build caches (a cold `setup.sh` takes about 1 minute).' % (len(seeds), seeds, 'all runs exited 0 without a VIOLATION line' if not bad else '%d runs were NOT silent' % len(bad))
json.dump(out, open(os.path.join(ROOT, 'tools', 'silence.json'), 'w'), indent=1)
sys.exit(1 if bad else 0)
