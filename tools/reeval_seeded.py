#!/usr/bin/env python3
"""reeval_seeded.py [-j N] [names...] - re-runs the quick check of its property against every
confirmed seeded change under /verif/seeded (each applied to its own scratch worktree of /repo's
HEAD, never to /repo itself), with the harness as it is NOW (frozen copy). Writes
seeded/<name>/recheck.json and prints a summary. This is the sensitivity regression suite of the
harness: every seeded change must stay caught."""
import json, os, shutil, subprocess, sys, time
from concurrent.futures import ThreadPoolExecutor
ROOT = os.path.dirname(os.path.dirname(os.path.abspath(__file__)))
args = sys.argv[1:]
jobs = 3
if args[:1] == ['-j']:
    jobs = int(args[1]); args = args[2:]
names = sorted(d for d in os.listdir(os.path.join(ROOT, 'seeded')) if os.path.exists(os.path.join(ROOT, 'seeded', d, 'patch.diff')))
if args:
    names = [n for n in names if n in args or n.split('-')[0] in args]
# one instance at a time: the slots (worktrees, target directories) are shared by name
import fcntl
_lock = open('/tmp/verif-reeval.lock', 'w')
try:
    fcntl.flock(_lock, fcntl.LOCK_EX | fcntl.LOCK_NB)
except OSError:
    print('another reeval_seeded.py is running (lock /tmp/verif-reeval.lock)'); sys.exit(3)
snap = '/tmp/verif-harness-snap-reeval'
subprocess.run(['rsync', '-a', '--delete', '--exclude', 'target', '--exclude', 'fuzz/target', '/verif/harness/', snap + '/'], check=True)
rev = subprocess.run(['git', '-C', ROOT, 'rev-parse', '--short', 'HEAD'], capture_output=True, text=True).stdout.strip()
def work(slot_names):
    slot, todo = slot_names
    wt = '/tmp/wt_reeval_%d' % slot
    out = []
    subprocess.run(['git', '-C', '/repo', 'worktree', 'remove', '--force', wt], stdout=subprocess.DEVNULL, stderr=subprocess.DEVNULL)
    subprocess.run(['git', '-C', '/repo', 'worktree', 'add', '-q', '--detach', wt, 'HEAD'], check=True)
    for n in todo:
        pid = n.split('-')[0]
        try:
            pid = json.load(open(os.path.join(ROOT, 'seeded', n, 'meta.json'))).get('violates_instead', pid)
        except Exception:
            pass
        subprocess.run('git checkout -q -- . && git clean -fdq', cwd=wt, shell=True)
        r = subprocess.run(['git', 'apply', os.path.join(ROOT, 'seeded', n, 'patch.diff')], cwd=wt, capture_output=True, text=True)
        if r.returncode != 0:
            # the tree moved on (later fix: commits): merge the change into the current source
            subprocess.run('git checkout -q -- . && git clean -fdq', cwd=wt, shell=True)
            r = subprocess.run(['git', 'apply', '--3way', os.path.join(ROOT, 'seeded', n, 'patch.diff')], cwd=wt, capture_output=True, text=True)
            subprocess.run('git reset -q', cwd=wt, shell=True)
        if r.returncode != 0:
            res = {'status': 'patch does not apply to the current /repo HEAD', 'harness_rev': rev}
        else:
            env = dict(os.environ, VERIF_HARNESS=snap, VERIF_REPO=wt, VERIF_ALT_TARGET='/tmp/verif-alt-target-reeval%d' % slot, VERIF_EVIDENCE_DIR='/tmp/verif-alt-evidence-reeval%d' % slot)
            t0 = time.time()
            c = subprocess.run([os.path.join(ROOT, 'check'), pid, 'quick'], cwd=ROOT, env=env, stdout=subprocess.PIPE, stderr=subprocess.STDOUT, text=True)
            lines = [l for l in c.stdout.splitlines() if l.startswith(('VIOLATION', '  check=', '  expected', '  actual', 'OK', 'INCONCLUSIVE'))][:4]
            res = {'check': pid, 'status': {0: 'MISSED', 1: 'caught', 2: 'inconclusive'}.get(c.returncode, str(c.returncode)), 'seconds': round(time.time() - t0, 1), 'output': lines, 'harness_rev': rev}
        json.dump(res, open(os.path.join(ROOT, 'seeded', n, 'recheck.json'), 'w'), indent=1)
        print(n, res['status'], res.get('seconds', ''), flush=True)
        out.append((n, res['status']))
    subprocess.run(['git', '-C', '/repo', 'worktree', 'remove', '--force', wt])
    shutil.rmtree('/tmp/verif-alt-target-reeval%d' % slot, ignore_errors=True)
    shutil.rmtree('/tmp/verif-alt-evidence-reeval%d' % slot, ignore_errors=True)
    return out
slots = [(k, names[k::jobs]) for k in range(jobs)]
with ThreadPoolExecutor(jobs) as ex:
    allr = [x for part in ex.map(work, slots) for x in part]
shutil.rmtree(snap, ignore_errors=True)
bad = [n for n, s in allr if s != 'caught']
print('%d seeded changes, %d caught, not caught: %s' % (len(allr), len(allr) - len(bad), bad))
sys.exit(1 if bad else 0)
