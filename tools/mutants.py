#!/usr/bin/env python3
"""mutants.py [ids...] - sensitivity run over mutants/mutants.json: each mutant is applied to a
scratch git worktree of /repo (never to /repo itself), must compile, must keep the whole
existing test suite green (otherwise it is 'not realistic' and dropped), and is then run
against the quick command of its property's check through VERIF_REPO / a frozen copy of the
harness. Results: mutants/results.json. The worktree and its build output are removed."""
import json, os, shutil, subprocess, sys, time
ROOT = os.path.dirname(os.path.dirname(os.path.abspath(__file__)))
M = json.load(open(os.path.join(ROOT, 'mutants', 'mutants.json')))
want = set(sys.argv[1:])
resp = os.path.join(ROOT, 'mutants', 'results.json')
results = json.load(open(resp)) if os.path.exists(resp) else {}
wt = '/tmp/wt_mutants'
snap = '/tmp/verif-harness-snap-mutants'
env = dict(os.environ, CARGO_NET_OFFLINE='true'); env.pop('RUSTFLAGS', None)
subprocess.run(['git', '-C', '/repo', 'worktree', 'remove', '--force', wt], stdout=subprocess.DEVNULL, stderr=subprocess.DEVNULL)
subprocess.run(['git', '-C', '/repo', 'worktree', 'add', '-q', '--detach', wt, 'HEAD'], check=True)
subprocess.run(['rsync', '-a', '--delete', '--exclude', 'target', '--exclude', 'fuzz/target', '/verif/harness/', snap + '/'], check=True)
head = subprocess.run(['git', '-C', '/repo', 'rev-parse', '--short', 'HEAD'], capture_output=True, text=True).stdout.strip()
for x in M:
    if want and x['id'] not in want and x['prop'] not in want:
        continue
    subprocess.run('git checkout -q -- .', cwd=wt, shell=True)
    p = os.path.join(wt, x['file'])
    s = open(p).read()
    if s.count(x['old']) != 1:
        results[x['id']] = {'prop': x['prop'], 'why': x['why'], 'status': 'does not apply', 'repo_head': head}
        continue
    open(p, 'w').write(s.replace(x['old'], x['new']))
    r = subprocess.run('cargo test --workspace --offline 2>&1', cwd=wt, env=env, shell=True, stdout=subprocess.PIPE, text=True)
    passed = sum(int(l.split()[3]) for l in r.stdout.splitlines() if l.startswith('test result:'))
    failed = sum(int(l.split()[5]) for l in r.stdout.splitlines() if l.startswith('test result:'))
    if 'error[' in r.stdout or 'error: could not compile' in r.stdout:
        results[x['id']] = {'prop': x['prop'], 'why': x['why'], 'status': 'does not compile', 'repo_head': head}
    elif failed or passed < 198:
        results[x['id']] = {'prop': x['prop'], 'why': x['why'], 'status': 'killed by the existing tests (%d failed)' % failed, 'repo_head': head}
    else:
        t0 = time.time()
        cenv = dict(os.environ, VERIF_HARNESS=snap, VERIF_REPO=wt, VERIF_ALT_TARGET='/tmp/verif-alt-target-mutants', VERIF_EVIDENCE_DIR='/tmp/verif-alt-evidence-mutants')
        c = subprocess.run([os.path.join(ROOT, 'check'), x['prop'], 'quick'], cwd=ROOT, env=cenv, stdout=subprocess.PIPE, stderr=subprocess.STDOUT, text=True)
        lines = [l for l in c.stdout.splitlines() if l.startswith(('VIOLATION', '  check=', '  expected', '  actual', 'OK', 'INCONCLUSIVE'))][:5]
        results[x['id']] = {'prop': x['prop'], 'why': x['why'], 'status': {0: 'SURVIVED', 1: 'caught', 2: 'inconclusive'}.get(c.returncode, str(c.returncode)), 'seconds': round(time.time() - t0, 1), 'output': lines, 'repo_head': head}
    print(x['id'], results[x['id']]['status'], results[x['id']].get('seconds', ''), flush=True)
    json.dump(results, open(resp, 'w'), indent=1)
subprocess.run(['git', '-C', '/repo', 'worktree', 'remove', '--force', wt])
shutil.rmtree('/tmp/verif-alt-target-mutants', ignore_errors=True)
shutil.rmtree('/tmp/verif-alt-evidence-mutants', ignore_errors=True)
shutil.rmtree(snap, ignore_errors=True)
