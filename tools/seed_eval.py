#!/usr/bin/env python3
"""seed_eval.py <ID> <k> [extra check ids...]
Confirms a seeded change produced by a sub-agent in a scratch worktree (/tmp/wt_<ID>):
 1. patch applies, crate builds, the full existing test suite passes with it;
 2. the demonstration fails with the change and passes without it;
 3. runs ./check <ID> quick (and the extra ids) against the patched worktree (VERIF_REPO).
Stores everything under /verif/seeded/<ID>-<k>/ when (1) and (2) hold."""
import json, os, shutil, subprocess, sys, time
pid, k = sys.argv[1], sys.argv[2]
extra = sys.argv[3:]
wt = '/tmp/wt_%s' % pid
tag = os.environ.get('SEED_TAG', '')  # e.g. 'r3' for the third round: source dir /tmp/seed_out/r3_<ID>
src = '/tmp/seed_out/%s%s' % (tag + '_' if tag else '', pid)
patch = os.path.join(src, 'patch%s.diff' % k)
demo = os.path.join(src, 'demo%s.rs' % k)
env = dict(os.environ, CARGO_NET_OFFLINE='true')
env.pop('RUSTFLAGS', None)
def run(cmd, cwd=wt, env=env, timeout=1800):
    r = subprocess.run(cmd, cwd=cwd, env=env, shell=isinstance(cmd, str), stdout=subprocess.PIPE, stderr=subprocess.STDOUT, text=True, timeout=timeout)
    return r.returncode, r.stdout
def clean():
    run('git checkout -- . && git clean -fdq tests/ src/')
res = {'property': pid, 'k': k}
clean()
rc, out = run(['git', 'apply', '--check', patch])
if rc != 0:
    print('patch does not apply:', out[-500:]); sys.exit(1)
run(['git', 'apply', patch])
rc, out = run('cargo test --workspace --offline 2>&1')
passed = sum(int(l.split()[3]) for l in out.splitlines() if l.startswith('test result:'))
failed = sum(int(l.split()[5]) for l in out.splitlines() if l.startswith('test result:'))
res['baseline_with_change'] = {'passed': passed, 'failed': failed}
uses_hooks = 'astrolabe_verif' in open(demo).read() or 'verif::' in open(demo).read()
denv = dict(env)
if uses_hooks:
    denv['RUSTFLAGS'] = '--cfg astrolabe_verif'
shutil.copy(demo, os.path.join(wt, 'tests', 'seed_demo.rs'))
rel = ' --release' if os.environ.get('SEED_DEMO_RELEASE') == '1' else ''
res['demo_profile'] = 'release' if rel else 'debug'
rc1, out1 = run('cargo test --offline%s --test seed_demo 2>&1 | tail -15' % rel, env=denv)
res['demo_fails_with_change'] = 'test result: FAILED' in out1 or 'error: test failed' in out1
run(['git', 'apply', '-R', patch])
rc2, out2 = run('cargo test --offline%s --test seed_demo 2>&1 | tail -15' % rel, env=denv)
res['demo_passes_without_change'] = 'test result: ok' in out2 and 'FAILED' not in out2
os.remove(os.path.join(wt, 'tests', 'seed_demo.rs'))
clean()
ok = failed == 0 and passed >= 198 and res['demo_fails_with_change'] and res['demo_passes_without_change']
res['confirmed'] = ok
if not ok:
    print(json.dumps(res, indent=1)); print(out1[-800:]); print(out2[-800:]); sys.exit(2)
# run my checks against the patched tree, from a frozen copy of the harness (so that edits made
# to /verif/harness while this runs cannot disturb the build)
run(['git', 'apply', patch])
checks = {}
snap = '/tmp/verif-harness-snap-%s' % pid
subprocess.run(['rsync', '-a', '--delete', '--exclude', 'target', '--exclude', 'fuzz/target', '--exclude', 'fuzz/corpus', '--exclude', 'fuzz/artifacts', '/verif/harness/', snap + '/'], check=True)
cenv = dict(os.environ, VERIF_HARNESS=snap, VERIF_REPO=wt, VERIF_ALT_TARGET='/tmp/verif-alt-target-%s' % pid, VERIF_EVIDENCE_DIR='/tmp/verif-alt-evidence-%s' % pid)
for cid in [pid] + extra:
    t0 = time.time()
    r = subprocess.run(['/verif/check', cid, 'quick'], cwd='/verif', env=cenv, stdout=subprocess.PIPE, stderr=subprocess.STDOUT, text=True)
    lines = [l for l in r.stdout.splitlines() if l.startswith(('VIOLATION', '  check=', '  expected', '  actual', 'OK', 'INCONCLUSIVE'))]
    checks[cid] = {'exit': r.returncode, 'seconds': round(time.time() - t0, 1), 'output': lines[:8]}
res['checks'] = checks
clean()
shutil.rmtree('/tmp/verif-alt-evidence-%s' % pid, ignore_errors=True)
shutil.rmtree(snap, ignore_errors=True)
dst = '/verif/seeded/%s-%s%s' % (pid, tag + '-' if tag else '', k)
os.makedirs(dst, exist_ok=True)
shutil.copy(patch, os.path.join(dst, 'patch.diff'))
shutil.copy(demo, os.path.join(dst, 'demo.rs'))
meta = json.load(open(os.path.join(src, 'meta%s.json' % k))) if os.path.exists(os.path.join(src, 'meta%s.json' % k)) else {}
meta['verified_by_me'] = res
meta['caught_by'] = [c for c, v in checks.items() if v['exit'] == 1]
json.dump(meta, open(os.path.join(dst, 'meta.json'), 'w'), indent=1)
print(json.dumps({'id': pid, 'k': k, 'confirmed': ok, 'caught_by': meta['caught_by'], 'checks': {c: (v['exit'], v['seconds']) for c, v in checks.items()}}, indent=0))
