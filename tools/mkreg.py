#!/usr/bin/env python3
"""mkreg.py <ID> <check> <name> '<case json>' '<what failed before the fix>' -> regressions/<ID>/<name>.json"""
import json, os, sys
pid, check, name, case, what = sys.argv[1:6]
d = os.path.join(os.path.dirname(os.path.dirname(os.path.abspath(__file__))), "regressions", pid)
os.makedirs(d, exist_ok=True)
json.dump({"property": pid, "check": check, "profile": "both", "seed": 0, "case": json.loads(case),
           "expected": "", "actual": what, "signature": "", "shrunk": True},
          open(os.path.join(d, name + ".json"), "w"), indent=1)
