#!/usr/bin/env python3
"""Regenerates the generated regions of DESIGN.md (seeded-change matrix, cost table) from
/verif/seeded/*/meta.json and /verif/evidence/*.json (+ tools/silence.json if present)."""
import glob, json, os, re
ROOT = os.path.dirname(os.path.dirname(os.path.abspath(__file__)))
rows = []
for d in sorted(glob.glob(os.path.join(ROOT, 'seeded', '*'))):
    mp = os.path.join(d, 'meta.json')
    if not os.path.exists(mp):
        continue
    m = json.load(open(mp))
    v = m.get('verified_by_me', {})
    name = os.path.basename(d)
    summ = (m.get('summary') or '').replace('|', '/').replace('\n', ' ')
    need = (m.get('needs_to_manifest') or '').replace('|', '/').replace('\n', ' ')
    if len(summ) > 170: summ = summ[:167] + '...'
    if len(need) > 150: need = need[:147] + '...'
    checks = v.get('checks', {})
    res = ', '.join('%s: %s (%ss)' % (c, {0: 'silent', 1: 'CAUGHT', 2: 'inconclusive'}.get(x['exit'], x['exit']), x.get('seconds', '-')) for c, x in checks.items())
    rp = os.path.join(d, 'recheck.json')
    if os.path.exists(rp):
        rc = json.load(open(rp))
        own = checks.get(name.split('-')[0], {}).get('exit')
        if own == 0 and rc.get('status') == 'caught':
            res += '; after strengthening (harness %s): CAUGHT%s (%ss)' % (rc.get('harness_rev'), (' by ' + rc['check']) if rc.get('check') and rc['check'] != name.split('-')[0] else '', rc.get('seconds'))
        elif rc.get('status') not in ('caught',):
            res += '; latest re-run: %s' % rc.get('status')
    if m.get('note_after_fix'):
        res += '; ' + m['note_after_fix'].replace('|', '/')
    rows.append('| %s | %s | %s | %s |' % (name, summ, need, res))
def _now_caught(mp):
    m = json.load(open(mp)); d = os.path.dirname(mp); pid = os.path.basename(d).split('-')[0]
    rp = os.path.join(d, 'recheck.json')
    if os.path.exists(rp):
        return json.load(open(rp)).get('status') == 'caught'
    return bool(m.get('caught_by')) and (pid in m.get('caught_by') or m.get('violates_instead') in m.get('caught_by'))
def _first(mp):
    m = json.load(open(mp)); pid = os.path.basename(os.path.dirname(mp)).split('-')[0]
    return m.get('verified_by_me', {}).get('checks', {}).get(pid, {}).get('exit') == 1
metas = glob.glob(os.path.join(ROOT, 'seeded', '*', 'meta.json'))
caught = sum(1 for mp in metas if _now_caught(mp))
first = sum(1 for mp in metas if _first(mp))
total = len(rows)
matrix = '| seeded change | what was changed | needs, to manifest | quick checks run against it |\n|---|---|---|---|\n' + '\n'.join(rows)
matrix += '\n\n%d of %d stored seeded changes are caught by the current harness (quick tier of the check of the property they were written against; latest `tools/reeval_seeded.py` run - the exception is explained in its row). First-contact rates per round - what the harness caught before it was strengthened in response - are in the notes below; the per-row results of rounds 1-4 were re-recorded after strengthening.' % (caught, total)
extra = os.path.join(ROOT, 'tools', 'seeded_notes.md')
if os.path.exists(extra):
    matrix += '\n\n' + open(extra).read().strip()
costs = '| id | quick: evaluations | distinct non-trivial | wall s (both profiles, incl. build check) |\n|---|---|---|---|\n'
sil = {}
sp = os.path.join(ROOT, 'tools', 'silence.json')
if os.path.exists(sp):
    sil = json.load(open(sp))
for f in sorted(glob.glob(os.path.join(ROOT, 'evidence', 'C*.json'))):
    e = json.load(open(f))
    q = sil.get(e['property_id'], {})
    costs += '| %s | %s | %s | %s |\n' % (e['property_id'], q.get('evaluations', e['coverage']['evaluations'] if e['tier'] == 'quick' else '-'), q.get('distinct_nontrivial', e['coverage']['distinct_nontrivial'] if e['tier'] == 'quick' else '-'), q.get('wall_s', e['wall_s'] if e['tier'] == 'quick' else '-'))
if sil.get('_note'):
    costs += '\n' + sil['_note'] + '\n'
mut = ''
mp = os.path.join(ROOT, 'mutants', 'results.json')
if os.path.exists(mp):
    R = json.load(open(mp))
    from collections import Counter
    c = Counter(('killed by the existing tests' if v['status'].startswith('killed') else v['status']) for v in R.values())
    mut = 'Outcome: %d mutants; %d are killed by the existing test-suite (so they are not "realistic" in the sense of this task and say nothing about the checks), %d survive the suite and are **caught** by the quick check of their property, %d survive both.\n\n' % (len(R), c.get('killed by the existing tests', 0), c.get('caught', 0), c.get('SURVIVED', 0))
    mut += '| mutant | property | change | outcome |\n|---|---|---|---|\n'
    for k in sorted(R):
        v = R[k]
        if v['status'].startswith('killed'):
            continue
        mut += '| %s | %s | %s | %s%s |\n' % (k, v['prop'], v['why'].replace('|', '/'), v['status'], (' in %ss' % v['seconds']) if 'seconds' in v else '')
    notes = os.path.join(ROOT, 'mutants', 'survivor_notes.md')
    if os.path.exists(notes):
        mut += '\n' + open(notes).read().strip() + '\n'
p = os.path.join(ROOT, 'DESIGN.md')
s = open(p).read()
s = re.sub(r'<!-- MUTANTS-BEGIN -->.*?<!-- MUTANTS-END -->', lambda _: '<!-- MUTANTS-BEGIN -->\n' + mut + '<!-- MUTANTS-END -->', s, flags=re.S)
s = re.sub(r'<!-- SEEDED-MATRIX-BEGIN -->.*?<!-- SEEDED-MATRIX-END -->', lambda _: '<!-- SEEDED-MATRIX-BEGIN -->\n' + matrix + '\n<!-- SEEDED-MATRIX-END -->', s, flags=re.S)
s = re.sub(r'<!-- COSTS-BEGIN -->.*?<!-- COSTS-END -->', lambda _: '<!-- COSTS-BEGIN -->\n' + costs + '<!-- COSTS-END -->', s, flags=re.S)
open(p, 'w').write(s)
print('matrix rows:', total, 'caught by own check:', caught)
