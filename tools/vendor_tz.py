#!/usr/bin/env python3
"""Vendors the system zoneinfo (fat) and the conda zoneinfo (slim) into corpus/tzif/{fat,slim},
deduplicated by content, skipping right/ and posix/ trees and non-TZif files; writes an index
and a CPython-zoneinfo golden (corpus/tzif/golden.jsonl) used to keep the reference TZif
reader/POSIX-TZ evaluator honest. Run once; outputs are committed."""
import os, hashlib, json, sys, random, struct, zoneinfo, datetime
ROOT = os.path.dirname(os.path.dirname(os.path.abspath(__file__)))
OUT = os.path.join(ROOT, 'corpus', 'tzif')
SRC = {'fat': '/usr/share/zoneinfo', 'slim': '/root/miniconda/share/zoneinfo'}
index = []
rng = random.Random(20261001)
golden = open(os.path.join(OUT, 'golden.jsonl'), 'w') if os.path.isdir(OUT) or not os.makedirs(OUT) else None
for flavour, src in SRC.items():
    seen = {}
    os.makedirs(os.path.join(OUT, flavour), exist_ok=True)
    for dp, dn, fn in sorted(os.walk(src)):
        rel = os.path.relpath(dp, src)
        if rel.split(os.sep)[0] in ('right', 'posix'):
            continue
        for f in sorted(fn):
            p = os.path.join(dp, f)
            try:
                data = open(p, 'rb').read()
            except OSError:
                continue
            if not data.startswith(b'TZif'):
                continue
            h = hashlib.sha1(data).hexdigest()[:12]
            name = os.path.normpath(os.path.join(rel, f)).replace(os.sep, '__')
            if h in seen:
                continue
            seen[h] = name
            open(os.path.join(OUT, flavour, name), 'wb').write(data)
            index.append({'flavour': flavour, 'file': name, 'sha1': h, 'size': len(data)})
            # golden: offsets from CPython at transitions +-1, rule switches, random
            with open(p, 'rb') as fh:
                z = zoneinfo.ZoneInfo.from_file(fh, key=name)
            # transition times from the v2+ block (or v1)
            def transitions(data):
                def hdr(o):
                    ver = data[o + 4:o + 5]
                    c = struct.unpack('>6l', data[o + 20:o + 44])
                    return ver, c
                ver, (isut, isstd, leap, timecnt, typecnt, charcnt) = hdr(0)
                o = 44
                if ver == b'\0':
                    return [struct.unpack('>l', data[o + 4 * i:o + 4 * i + 4])[0] for i in range(timecnt)]
                o += timecnt * 5 + typecnt * 6 + charcnt + leap * 8 + isstd + isut
                ver, (isut, isstd, leap, timecnt, typecnt, charcnt) = hdr(o)
                o += 44
                return [struct.unpack('>q', data[o + 8 * i:o + 8 * i + 8])[0] for i in range(timecnt)]
            tr = transitions(data)
            ts = set()
            for t in tr:
                ts.update((t - 1, t, t + 1))
            for y in rng.sample(range(1900, 2500), 12):
                for (m, d) in ((1, 1), (7, 1), (3, 31), (10, 31)):
                    ts.add(int(datetime.datetime(y, m, d, tzinfo=datetime.timezone.utc).timestamp()))
            for _ in range(30):
                ts.add(rng.randrange(-2208988800, 16725225600))
            first = tr[0] if tr else -2**62
            rows = []
            for t in sorted(ts):
                if t < first or not (-62135596800 < t < 253402300800 - 86400 * 2):
                    continue
                try:
                    off = datetime.datetime.fromtimestamp(t, tz=z).utcoffset()
                except (OverflowError, ValueError, OSError):
                    continue
                rows.append([t, int(off.total_seconds())])
            # keep the golden small: at most 400 rows per file
            if len(rows) > 400:
                rows = rng.sample(rows, 400)
                rows.sort()
            golden.write(json.dumps({'flavour': flavour, 'file': name, 'rows': rows}) + '\n')
json.dump(index, open(os.path.join(OUT, 'index.json'), 'w'), indent=0)
print(len(index), 'files vendored')
