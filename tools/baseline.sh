#!/bin/sh
# Runs the repository's test suite with the verification guard OFF and prints a summary.
cd /repo && env -u RUSTFLAGS cargo test --workspace --no-fail-fast --offline 2>&1 | awk '
/^test result:/ { p += $4; f += $6 }
/FAILED|panicked|^error|^warning/ { print }
END { printf "baseline: passed=%d failed=%d (expect 166 unit/integration + 32 doc = 198)\n", p, f; exit (f>0 || p!=198) }'
